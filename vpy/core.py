"""Core of the /verif orchestrator: builds /repo out of tree in many variants,
runs harness drivers, merges their JSON-lines output, matches violations against
the known-findings file, writes evidence and prints the verdict lines."""
import atexit, concurrent.futures as cf, fnmatch, hashlib, json, os, re, shutil, signal
import subprocess, sys, tempfile, time

VERIF = os.path.dirname(os.path.dirname(os.path.abspath(__file__)))
REPO = os.environ.get("VERIF_REPO", "/repo")
HARNESS = os.path.join(VERIF, "harness")
EVID = os.environ.get("VERIF_EVIDENCE_DIR") or os.path.join(VERIF, "evidence")
KNOWN = os.path.join(VERIF, "known-findings.txt")
GUARD = "RWEATHER_SKINNY_C_VERIF"
NCPU = os.cpu_count() or 4

LIB_SOURCES = [
    "skinny-internal", "skinny128-cipher", "skinny128-ctr", "skinny128-ctr-vec128",
    "skinny128-ctr-vec256", "skinny128-parallel", "skinny128-parallel-vec128",
    "skinny128-parallel-vec256", "skinny64-cipher", "skinny64-ctr", "skinny64-ctr-vec128",
    "skinny64-parallel", "skinny64-parallel-vec128", "mantis-cipher", "mantis-ctr",
    "mantis-ctr-vec128", "mantis-parallel", "mantis-parallel-vec128"]

_workdir = None


def workdir():
    global _workdir
    if _workdir is None:
        _workdir = tempfile.mkdtemp(prefix="vp-skinny-")
        atexit.register(lambda: shutil.rmtree(_workdir, ignore_errors=True))
    return _workdir


class HarnessError(Exception):
    pass


def sh(cmd, **kw):
    return subprocess.run(cmd, stdout=subprocess.PIPE, stderr=subprocess.PIPE, text=True, **kw)


_mak = None


def options_mak():
    """Flags the shipped build uses, read from /repo/options.mak at run time."""
    global _mak
    if _mak is None:
        mk = ("include %s/options.mak\nprint:\n\t@echo 'COMMON=$(COMMON_CFLAGS)'\n\t@echo 'STDC=$(STDC_CFLAGS)'\n"
              "\t@echo 'V128=$(VEC128_CFLAGS)'\n\t@echo 'V256=$(VEC256_CFLAGS)'\n" % REPO)
        p = subprocess.run(["make", "-s", "-f", "-", "print"], input=mk, stdout=subprocess.PIPE, stderr=subprocess.PIPE, text=True)
        if p.returncode != 0:
            raise HarnessError("cannot read options.mak: " + p.stderr)
        _mak = {}
        for line in p.stdout.splitlines():
            k, _, v = line.partition("=")
            _mak[k] = v.split()
    return _mak


def lib_sources():
    """Library sources as listed in /repo/src (fall back to our list)."""
    srcdir = os.path.join(REPO, "src")
    names = sorted(f[:-2] for f in os.listdir(srcdir) if f.endswith(".c"))
    return names or LIB_SOURCES


class Variant:
    """A build variant: '<base>[+mod]*'.
    base: prod | make | asan | msan | tsan | clang | tsanclang | asanclang | gcc
    mods: W32 UNAL0 NEUTRAL NOSIMD NOAVX2 NOBUILTIN NATIVE NDEBUG UCHAR LTO O0 O1 O2 O3 Os Og"""

    def __init__(self, name):
        self.name = name
        parts = name.split("+")
        self.base = parts[0]
        self.mods = parts[1:]
        self.cfg = {}
        self.nobuiltin = False
        self.extra = []
        self.lto = False
        opt = None
        for m in self.mods:
            if m == "W32": self.cfg["64BIT"] = 0
            elif m == "UNAL0": self.cfg["UNALIGNED"] = 0
            elif m == "NEUTRAL": self.cfg.update({"LITTLE_ENDIAN": 0, "VEC128_MATH": 0, "VEC256_MATH": 0})
            elif m == "NOSIMD": self.cfg.update({"VEC128_MATH": 0, "VEC256_MATH": 0})
            elif m == "NOAVX2": self.cfg["VEC256_MATH"] = 0
            elif m == "NATIVE": self.extra.append("-march=native")     # user-style flags applied to every file: every __SSE3__/__SSSE3__/__AVX2__-conditional arm of the sources is compiled in
            elif m == "LTO": self.extra += ["-flto", "-ffat-lto-objects"]; self.lto = True     # link-time optimisation: calls across files (e.g. a wipe helper) become visible to the optimiser
            elif m == "NDEBUG": self.extra.append("-DNDEBUG")           # release-style build: assert() compiled out
            elif m == "UCHAR": self.extra.append("-funsigned-char")     # plain char unsigned, as on ARM/PowerPC ABIs
            elif m == "NOBUILTIN": self.nobuiltin = True     # memcpy/memset stay calls, so sanitizer interceptors see them
            elif re.fullmatch(r"O[0123sg]", m): opt = "-" + m
            else: raise HarnessError("unknown variant modifier " + m)
        mak = options_mak()
        common = [f for f in mak["COMMON"] if not f.startswith("-O")]
        shipped_opt = [f for f in mak["COMMON"] if f.startswith("-O")] or ["-O2"]
        self.unaligned = self.cfg.get("UNALIGNED", 1)
        b = self.base
        self.san = []
        if b in ("prod", "gcc", "make"):      # "make": the library is built by the repository's own src/Makefile (see build_lib)
            self.cc = "gcc"; o = shipped_opt
        elif b == "clang":
            self.cc = "clang"; o = shipped_opt
        elif b in ("asan", "asanclang"):
            self.cc = "gcc" if b == "asan" else "clang"; o = ["-O1"]
            self.san = ["-fno-omit-frame-pointer", "-fsanitize=address,undefined", "-fno-sanitize-recover=all"]
            if self.unaligned:
                # the word-wide casts in skinny-internal.h are the documented x86 fast path
                self.san.append("-fno-sanitize=alignment")
        elif b == "msan":
            self.cc = "clang"; o = ["-O1"]
            self.san = ["-fno-omit-frame-pointer", "-fsanitize=memory", "-fsanitize-memory-track-origins"]
        elif b in ("tsan", "tsanclang"):
            self.cc = "gcc" if b == "tsan" else "clang"; o = ["-O1"]
            self.san = ["-fsanitize=thread"]
        else:
            raise HarnessError("unknown variant base " + b)
        if opt: o = [opt]
        # diagnostic mode (tools/coverage.py): gcc builds without sanitizer are compiled with gcov instrumentation
        self.cov = bool(os.environ.get("VERIF_COV")) and b in ("prod", "gcc")
        if self.cov:
            self.san = ["--coverage", "-DVH_COVERAGE"]
            if not opt: o = ["-O0"]
        self.opt = o
        # valgrind 3.19 cannot read clang 14's default DWARF 5
        self.dbg = ["-g", "-gdwarf-4"] if self.cc == "clang" else ["-g"]
        self.common = common
        self.defs = ["-D" + GUARD] + ["-DSKINNY_VERIF_%s=%d" % (k, v) for k, v in sorted(self.cfg.items())]

    def lib_flags(self, src):
        mak = options_mak()
        fl = list(self.opt) + self.dbg + self.common + mak["STDC"] + self.san + self.defs + (["-fno-builtin"] if self.nobuiltin else []) + self.extra
        if "vec256" in src:
            fl = mak["V256"] + fl
        elif "vec128" in src:
            fl = mak["V128"] + fl
        elif src == "skinny-internal":
            fl = mak["V128"] + mak["V256"] + fl
        return fl

    def harness_flags(self):
        o = ["-O1"] if self.san else ["-O2"]
        return o + self.dbg + ["-std=gnu11", "-Wall", "-Wno-unused-parameter"] + self.san + ["-D" + GUARD] + (["-flto"] + list(self.opt) if self.lto else [])


_pool = None


def pool():
    global _pool
    if _pool is None:
        _pool = cf.ThreadPoolExecutor(max_workers=NCPU)
    return _pool


_libs = {}


def build_lib(vname):
    """Compile /repo/src/*.c of the current working tree for a variant; returns dir with libskinny.a"""
    if vname in _libs:
        return _libs[vname]
    v = Variant(vname)
    out = os.path.join(workdir(), "lib-" + re.sub(r"[^A-Za-z0-9]", "_", vname))
    os.makedirs(out, exist_ok=True)
    if v.base == "make":
        # the static library exactly as the repository's Makefile builds it (per-file flags and all), in a scratch copy of the
        # working tree; only the verification guard is added through the environment (the Makefile appends to CFLAGS)
        for d in ("src", "include"):
            shutil.copytree(os.path.join(REPO, d), os.path.join(out, d), dirs_exist_ok=True)
        shutil.copy(os.path.join(REPO, "options.mak"), out)
        p = subprocess.run(["make", "-C", os.path.join(out, "src"), "clean", "libskinny.a"], stdout=subprocess.PIPE, stderr=subprocess.PIPE, text=True,
                           env=dict(os.environ, CFLAGS="-g -D" + GUARD + " " + " ".join(v.extra)))
        if p.returncode != 0:
            raise HarnessError("make of the library failed:\n" + p.stderr[-3000:])
        shutil.copy(os.path.join(out, "src", "libskinny.a"), os.path.join(out, "libskinny.a"))
        _libs[vname] = out
        return out
    srcs = lib_sources()

    def cc(src):
        cmd = [v.cc] + v.lib_flags(src) + ["-I" + os.path.join(REPO, "include"), "-c",
                                          os.path.join(REPO, "src", src + ".c"), "-o", os.path.join(out, src + ".o")]
        p = sh(cmd)
        if p.returncode != 0:
            raise HarnessError("library build failed (%s, %s):\n%s\n%s" % (vname, src, " ".join(cmd), p.stderr[-3000:]))
    list(pool().map(cc, srcs))
    p = sh(["ar", "rc", os.path.join(out, "libskinny.a")] + [os.path.join(out, s + ".o") for s in srcs])
    if p.returncode != 0:
        raise HarnessError("ar failed: " + p.stderr)
    _libs[vname] = out
    return out


COMMON_HARNESS = ["vh.c", "lib.c", "ref_skinny.c", "ref_mantis.c", "ref_selftest.c"]


def build_driver(name, sources, vname, extra=(), libs=(), cxx=False, link_lib=True, common=True):
    v = Variant(vname)
    libdir = build_lib(vname) if link_lib else None
    exe = os.path.join(workdir(), "%s-%s" % (name, re.sub(r"[^A-Za-z0-9]", "_", vname)))
    srcs = [os.path.join(HARNESS, s) for s in (list(sources) + (COMMON_HARNESS if common else []))]
    cmd = [v.cc] + v.harness_flags() + list(extra) + ["-I" + os.path.join(REPO, "include"), "-I" + HARNESS] + srcs
    if link_lib:
        cmd += [os.path.join(libdir, "libskinny.a")]
    cmd += ["-o", exe] + list(libs)
    p = sh(cmd)
    if p.returncode != 0:
        raise HarnessError("driver build failed (%s, %s):\n%s\n%s" % (name, vname, " ".join(cmd), p.stderr[-4000:]))
    return exe


def san_env(vname):
    env = dict(os.environ)
    env["ASAN_OPTIONS"] = "abort_on_error=1:detect_leaks=0:handle_segv=0:allocator_may_return_null=1:detect_stack_use_after_return=0"
    env["UBSAN_OPTIONS"] = "print_stacktrace=1:halt_on_error=1:abort_on_error=1"
    env["MSAN_OPTIONS"] = "abort_on_error=1:halt_on_error=1"
    env["TSAN_OPTIONS"] = "halt_on_error=0:report_signal_unsafe=0"
    return env


class RunResult:
    def __init__(self):
        self.records = []      # parsed JSON lines
        self.stderr = ""
        self.rc = None
        self.timed_out = False
        self.cmd = None


def run_driver(cmd, env=None, timeout=900, cwd=None):
    r = RunResult()
    r.cmd = cmd
    try:
        p = subprocess.run(cmd, stdout=subprocess.PIPE, stderr=subprocess.PIPE, env=env, timeout=timeout, cwd=cwd)
        r.rc = p.returncode
        out = p.stdout.decode("utf-8", "replace")
        r.stderr = p.stderr.decode("utf-8", "replace")
    except subprocess.TimeoutExpired as e:
        r.timed_out = True
        out = (e.stdout or b"").decode("utf-8", "replace")
        r.stderr = (e.stderr or b"").decode("utf-8", "replace")
    for line in out.splitlines():
        line = line.strip()
        if not line.startswith("{"):
            continue
        try:
            r.records.append(json.loads(line))
        except Exception:
            r.records.append({"type": "harness_error", "detail": "unparsable driver line: " + line[:200]})
    return r


class Outcome:
    """Accumulated result of a check."""

    def __init__(self, prop, tier, seed, level="exploration"):
        self.prop, self.tier, self.seed, self.level = prop, tier, seed, level
        self.evaluations = 0
        self.distinct = set()
        self.distinct_extra = 0
        self.rule = ""
        self.samples = []
        self.counters = {}
        self.maxima = {}
        self.violations = []        # dicts with key/detail/replay
        self.vkeys = {}
        self.inconclusive = []
        self.harness_errors = []
        self.assumptions = []
        self.observed = {}
        self.variants = []
        self.exhaustive = False
        self.digests = {}
        self.t0 = time.time()

    MAXKEYS = ("max_", "distinct_saturated")

    def absorb(self, rr, label=""):
        """Merge a RunResult from a driver."""
        summaries = 0
        for j in rr.records:
            t = j.get("type")
            if t == "violation":
                self.violations.append(j)
            elif t == "sample":
                if len(self.samples) < 6:
                    self.samples.append(j.get("case"))
            elif t == "summary":
                summaries += 1
                for k, v in j.get("counters", {}).items():
                    if k.startswith(self.MAXKEYS):
                        self.maxima[k] = max(self.maxima.get(k, 0), v)
                    else:
                        self.counters[k] = self.counters.get(k, 0) + v
                for k, v in j.get("violation_keys", {}).items():
                    self.vkeys[k] = self.vkeys.get(k, 0) + v
            elif t == "inconclusive":
                self.inconclusive.append(j)
            elif t == "harness_error":
                self.harness_errors.append(j)
            elif t == "digest":
                self.digests.setdefault(label, {})[(j["section"], j["first_case"], j["cases"])] = j["hash"]
            elif t == "note":
                self.observed.setdefault("notes", []).append(j.get("text"))
        if rr.stderr and any(j.get("type") == "violation" for j in rr.records):
            ex = self.observed.setdefault("tool_stderr_excerpts", [])
            if len(ex) < 3:
                ex.append(rr.stderr[-2500:])
        if rr.timed_out:
            self.inconclusive.append({"reason": "driver timed out", "cmd": " ".join(rr.cmd)})
        elif summaries == 0:
            self.harness_errors.append({"detail": "driver produced no summary (rc=%s) %s: %s" % (rr.rc, label, rr.stderr[-1500:]), "cmd": " ".join(rr.cmd)})

    def add_distinct_file(self, path):
        try:
            with open(path, "rb") as f:
                data = f.read()
            import array
            a = array.array("Q")
            a.frombytes(data[: len(data) // 8 * 8])
            self.distinct.update(a)
        except OSError:
            pass

    def violation(self, key, detail=None, replay=None):
        self.violations.append({"type": "violation", "key": key, "detail": detail, "replay": replay})
        self.vkeys[key] = self.vkeys.get(key, 0) + 1


def run_sharded(out, exe, args, vname, cases, shards=None, first=0, timeout=900, label="", use_distinct=True, wrapper=(), extra_env=None):
    """Run a driver over `cases` cases split over shards processes."""
    shards = shards or min(NCPU, max(1, cases // 20))
    env = san_env(vname)
    if extra_env:
        env.update(extra_env)
    futs = []
    for i in range(shards):
        dfile = os.path.join(workdir(), "d-%s-%d-%d.bin" % (hashlib.md5((exe + label + vname + " ".join(args)).encode()).hexdigest()[:10], i, shards))
        cmd = list(wrapper) + [exe] + list(args) + ["--seed", str(out.seed), "--cases", str(cases), "--first", str(first),
                                                  "--shard", "%d/%d" % (i, shards), "--variant", vname]
        if use_distinct:
            cmd += ["--distinct-file", dfile]
        futs.append((pool().submit(run_driver, cmd, env, timeout), dfile))
    for f, dfile in futs:
        rr = f.result()
        out.absorb(rr, label or vname)
        if use_distinct:
            out.add_distinct_file(dfile)
            try: os.unlink(dfile)
            except OSError: pass
    out.evaluations += cases
    if vname not in out.variants:
        out.variants.append(vname)


def build_cxx_driver(name, cxx_sources, c_sources, vname, incs=(), extra=(), libs=()):
    """Mixed build: C harness files with the variant's C compiler, C++ files with the matching C++ compiler, linked with it."""
    v = Variant(vname)
    libdir = build_lib(vname)
    cxx = "g++" if v.cc == "gcc" else "clang++"
    tag = re.sub(r"[^A-Za-z0-9]", "_", vname)
    objs = []
    cflags = v.harness_flags()
    # the C++ sources under test (the Arduino classes) are compiled at the variant's own optimisation level (-O0/-Os matter: without
    # inlining, same-named inline helpers of different files collide at link time); the harness C files keep their usual level
    cxxflags = [f for f in cflags if not f.startswith("-std=") and not re.fullmatch(r"-O[0-3sg]", f)] + list(v.opt) + [f for f in v.extra if f != "-march=native" or True] + ["-std=gnu++11", "-Wno-unused-variable"]
    inc = ["-I" + os.path.join(REPO, "include"), "-I" + HARNESS] + ["-I" + i for i in incs]

    def comp(job):
        cc, flags, src = job
        obj = os.path.join(workdir(), "%s-%s-%s.o" % (name, tag, re.sub(r"[^A-Za-z0-9]", "_", os.path.basename(src))))
        p = sh([cc] + flags + list(extra) + inc + ["-c", src, "-o", obj])
        if p.returncode != 0:
            raise HarnessError("compile failed (%s, %s): %s" % (src, vname, p.stderr[-3000:]))
        return obj
    jobs = [(v.cc, cflags, os.path.join(HARNESS, s)) for s in list(c_sources) + COMMON_HARNESS] + [(cxx, cxxflags, s) for s in cxx_sources]
    objs = list(pool().map(comp, jobs))
    exe = os.path.join(workdir(), "%s-%s" % (name, tag))
    p = sh([cxx] + v.san + objs + [os.path.join(libdir, "libskinny.a"), "-o", exe] + list(libs))
    if p.returncode != 0:
        raise HarnessError("link failed (%s, %s): %s" % (name, vname, p.stderr[-3000:]))
    return exe


# ---------------------------------------------------------------- known findings

def load_known():
    known, fixed = [], []
    if os.path.exists(KNOWN):
        for line in open(KNOWN):
            line = line.strip()
            if not line or line.startswith("#"):
                continue
            m = re.match(r"known:\s+property=(\S+)\s+key=(\S+)\s+(.*)", line)
            if m:
                known.append({"property": m.group(1), "key": m.group(2), "what": m.group(3)})
                continue
            m = re.match(r"fixed:\s+property=(\S+)\s+(\S+)\s+(.*)", line)
            if m:
                fixed.append({"property": m.group(1), "commit": m.group(2), "what": m.group(3)})
    return known, fixed


def finish(out, extra_coverage=None):
    """Write evidence, print verdict lines, return exit code."""
    known, _fixed = load_known()
    os.makedirs(os.path.join(EVID, "replay"), exist_ok=True)
    for fn in os.listdir(os.path.join(EVID, "replay")):
        if fn.startswith(out.prop + "-"):
            os.unlink(os.path.join(EVID, "replay", fn))
    by_key = {}
    for v in out.violations:
        by_key.setdefault(v["key"], []).append(v)
    for k in out.vkeys:
        by_key.setdefault(k, [])
    unlisted, listed = {}, {}
    for k, vs in by_key.items():
        ent = next((e for e in known if e["property"] == out.prop and fnmatch.fnmatchcase(k, e["key"])), None)
        if ent:
            listed.setdefault(ent["key"], (ent, []))[1].extend(vs)
        else:
            unlisted[k] = vs
    wall = time.time() - out.t0
    distinct = len(out.distinct) + out.distinct_extra
    cov = {
        "evaluations": int(out.evaluations),
        "distinct_nontrivial": int(distinct),
        "rule": out.rule,
        "samples": out.samples[:6] if out.samples else [],
        "exhaustive": bool(out.exhaustive),
        "build_variants": out.variants,
        "observed": dict(out.counters, **out.maxima, **out.observed),
        "violation_keys": {k: out.vkeys.get(k, len(v)) for k, v in by_key.items()},
        "known_findings_matched": sorted(listed.keys()),
        "inconclusive": out.inconclusive[:5],
    }
    if extra_coverage:
        cov.update(extra_coverage)
    ev = {
        "property_id": out.prop, "tier": out.tier, "seed": int(out.seed), "level": out.level,
        "coverage": cov, "assumptions": out.assumptions, "wall_s": round(wall, 2),
        "violations": sum(max(out.vkeys.get(k, 0), len(v)) for k, v in unlisted.items()),
    }
    rc = 0
    lines = []
    for pat, (ent, vs) in sorted(listed.items()):
        lines.append("KNOWN-FINDING: property=%s %s (key %s, %d occurrence(s) this run)" % (out.prop, ent["what"], pat, sum(out.vkeys.get(v["key"], 1) for v in vs[:1]) or len(vs)))
    for k, vs in sorted(unlisted.items()):
        h = hashlib.sha1(k.encode()).hexdigest()[:10]
        path = os.path.join(EVID, "replay", "%s-%s.json" % (out.prop, h))
        with open(path, "w") as f:
            json.dump({"property": out.prop, "key": k, "occurrences": out.vkeys.get(k, len(vs)), "tier": out.tier, "seed": out.seed,
                       "witnesses": vs[:3]}, f, indent=1)
        lines.append("VIOLATION property=%s replay=%s" % (out.prop, path))
        lines.append("  key=%s occurrences=%d" % (k, out.vkeys.get(k, len(vs))))
        rc = 1
    if rc == 0 and (out.harness_errors or out.inconclusive):
        rc = 2
    if rc == 0 and (ev["coverage"]["evaluations"] < 1 or distinct < 2 or not cov["samples"]):
        out.harness_errors.append({"detail": "run observed nothing (evaluations=%d distinct=%d samples=%d)" % (out.evaluations, distinct, len(cov["samples"]))})
        rc = 2
    if out.harness_errors:
        cov["harness_errors"] = out.harness_errors[:5]
    with open(os.path.join(EVID, out.prop + ".json"), "w") as f:
        json.dump(ev, f, indent=1, default=str)
    for l in lines:
        print(l)
    status = {0: "held on everything explored", 1: "VIOLATED", 2: "INCONCLUSIVE"}[rc]
    print("%s %s tier=%s seed=%d: %s; evaluations=%d distinct_nontrivial=%d wall=%.1fs" %
          ("check", out.prop, out.tier, out.seed, status, out.evaluations, distinct, wall))
    if rc == 2:
        for e in (out.harness_errors + out.inconclusive)[:5]:
            print("  inconclusive/harness: " + json.dumps(e)[:1500])
    return rc


def collect_coverage(dest):
    """VERIF_COV diagnostic: run gcov over every instrumented object of this process and write per-file line counts
    for the sources that belong to the repository (library, example tools, Arduino classes)."""
    import gzip, glob
    agg = {}
    funcs = {}
    bydir = {}
    for g in glob.glob(os.path.join(workdir(), "**", "*.gcda"), recursive=True):
        bydir.setdefault(os.path.dirname(g), []).append(g)
    for d, gc in sorted(bydir.items()):
        for g in gc:
            sh(["gcov", "-j", g], cwd=d)
        for jf in glob.glob(os.path.join(d, "*.gcov.json.gz")):
            j = json.load(gzip.open(jf))
            for f in j.get("files", []):
                path = os.path.normpath(os.path.join(j.get("current_working_directory", d), f["file"]))
                if not path.startswith(REPO + "/"):
                    continue
                name = os.path.relpath(path, REPO)
                a = agg.setdefault(name, {})
                for ln in f.get("lines", []):
                    a[ln["line_number"]] = a.get(ln["line_number"], 0) + ln["count"]
                for fn in f.get("functions", []):
                    k = name + ":" + fn.get("demangled_name", fn["name"])
                    funcs[k] = funcs.get(k, 0) + fn["execution_count"]
            os.unlink(jf)
    json.dump({"lines": {k: {str(l): c for l, c in sorted(v.items())} for k, v in agg.items()}, "functions": funcs}, open(dest, "w"))
