"""C20: example tools vs the library API and the model on generated files."""
import hashlib, os, random, subprocess
from . import core


def build_tools(vname):
    v = core.Variant(vname)
    libdir = core.build_lib(vname)
    mak = core.options_mak()
    tools = {}
    ex = os.path.join(core.REPO, "examples")
    tag = vname.replace("+", "_")
    for t in ("skinny-ctr", "skinny-tweak", "skinny-ecb"):
        exe = os.path.join(core.workdir(), "%s-%s" % (t, tag))
        cmd = [v.cc] + v.opt + v.dbg + v.common + mak["STDC"] + v.san + ["-I" + os.path.join(core.REPO, "include"), os.path.join(ex, t + ".c"), os.path.join(ex, "options.c"),
                                                                        os.path.join(libdir, "libskinny.a"), "-o", exe]
        p = core.sh(cmd)
        if p.returncode != 0:
            raise core.HarnessError("tool build failed (%s %s): %s" % (t, vname, p.stderr[-2000:]))
        tools[t] = exe
    oracle = core.build_driver("tool_oracle", ["tool_oracle.c", "lib.c", "ref_skinny.c", "ref_mantis.c"], vname, common=False)
    return tools, oracle


def spell_hex(rng, b):
    h = b.hex()
    style = rng.randrange(5)
    if style == 1:
        h = h.upper()
    elif style == 2:
        h = ":".join(h[i:i + 2] for i in range(0, len(h), 2))
    elif style == 3:
        h = " ".join(h[i:i + 4] for i in range(0, len(h), 4))
    elif style == 4:
        h = "".join(c.upper() if rng.random() < 0.5 else c for c in h)
        h = ".".join(h[i:i + 2] for i in range(0, len(h), 2))
    return h


def gen_cases(seed, count):
    rng = random.Random(seed * 7919 + 20)
    lens = [0, 1, 7, 8, 9, 15, 16, 17, 1023, 1024, 1025, 2047, 2048, 2049, 31, 32, 33, 3000]
    cases = []
    i = 0
    while len(cases) < count:
        tool = ("skinny-ctr", "skinny-tweak", "skinny-ecb")[i % 3]
        bb = (8, 16)[(i // 3) % 2]
        n = lens[(i // 6) % len(lens)] if i < 6 * len(lens) * 2 else rng.randrange(0, 65536 if rng.random() < 0.1 else 5000)
        if i % 35 in (29, 33):        # files larger than any stdio / tool buffer: 1 MiB exactly, just above, several MiB
            n = [1048576, 1048577, 1048576 + 4100 + rng.randrange(4096), 3 * 1048576 + 77, 2 * 1048576 + rng.randrange(100000)][(i // 35) % 5]
        maxk = 2 * bb if tool == "skinny-tweak" else 3 * bb
        klen = rng.choice([bb, 2 * bb, maxk]) if rng.random() < 0.6 else rng.randrange(bb, maxk + 1)
        key = bytes(rng.getrandbits(8) for _ in range(klen))
        tw = None
        if tool != "skinny-ecb" and rng.random() < 0.8:
            tl = bb if rng.random() < 0.5 else rng.randrange(1, bb + 1)
            kind = rng.randrange(5)
            if kind == 4:
                # low word of 1/2/4/8 bytes just below its top-bit boundary (7F FF..FF -> 80 00..00) or its wrap
                w = min(tl, rng.choice([1, 2, 4, 8, 16]))
                top = rng.choice([0x7F, 0x7F, 0xFF, 0x80])
                word = (int.from_bytes(bytes([top] + [0x00 if top == 0x80 else 0xFF] * (w - 1)), "big") - rng.randrange(0, 13)) % (1 << (8 * w))
                tw = bytes(rng.getrandbits(8) for _ in range(tl - w)) + word.to_bytes(w, "big")
            elif kind == 0:
                tw = bytes([0xFF] * tl)
            elif kind == 1:
                k = rng.randrange(1, tl + 1)
                tw = bytes([rng.getrandbits(8) for _ in range(tl - k)] + [0xFF] * (k - 1) + [0xFF - rng.randrange(0, 40)])
            else:
                tw = bytes(rng.getrandbits(8) for _ in range(tl))
        dec = tool != "skinny-ctr" and rng.random() < 0.4
        cases.append({"tool": tool, "bb": bb, "len": n, "key": key, "tw": tw, "dec": dec, "khex": spell_hex(rng, key), "thex": spell_hex(rng, tw) if tw is not None else None,
                      "seed": rng.getrandbits(32)})
        i += 1
    return cases


def _perms(groups, tail, rng, limit=6):
    import itertools
    ps = list(itertools.permutations(groups))
    rng.shuffle(ps)
    return [[a for g in p for a in g] + tail for p in ps[:limit]]


def invalid_cases(seed):
    rng = random.Random(seed * 104729 + 5)
    out = []
    for tool in ("skinny-ctr", "skinny-tweak", "skinny-ecb"):
        for bb in (8, 16):
            b = ["-b", str(bb * 8)]
            good = bytes(rng.getrandbits(8) for _ in range(bb)).hex()
            maxk = 2 * bb if tool == "skinny-tweak" else 3 * bb
            out += [
                (tool, "missing-key", b + ["IN", "OUT"]),
                (tool, "bad-hex", b + ["-k", good[:-2] + "zz", "IN", "OUT"]),
                (tool, "empty-key", b + ["-k", "", "IN", "OUT"]),
                (tool, "key-too-short", b + ["-k", good[:2 * (bb - 1)], "IN", "OUT"]),
                (tool, "key-too-long", b + ["-k", "ab" * (maxk + 1), "IN", "OUT"]),
                (tool, "bad-block-size", ["-b", rng.choice(["32", "256", "abc", "0"]), "-k", good, "IN", "OUT"]),
                # a legal size followed or preceded by something else, or a number that only equals 64/128 after truncation
                (tool, "bad-block-size-trailing-garbage", ["-b", rng.choice(["64x", "128bit", "64,128", "12864", "64.0", "128 64"]), "-k", good, "IN", "OUT"]),
                (tool, "bad-block-size-wraps-to-legal", ["-b", rng.choice(["4294967360", "4294967424", "18446744073709551680", "-4294967232"]), "-k", good, "IN", "OUT"]),
                (tool, "missing-output-name", b + ["-k", good, "IN"]),
                (tool, "missing-both-names", b + ["-k", good]),
                (tool, "unknown-option", b + ["-k", good, "-x", "IN", "OUT"]),
                (tool, "unreadable-input", b + ["-k", good, "MISSING", "OUT"]),
                (tool, "key-way-too-long", b + ["-k", "cd" * 80, "IN", "OUT"]),
            ]
            if tool != "skinny-ecb":
                opt = "-t" if tool == "skinny-tweak" else "-c"
                for n_extra in (1, 2, bb if bb == 8 else 3):       # for -b64: lengths 9,10,16 (legal for 128-bit blocks, illegal for 64)
                    for args in _perms([b, ["-k", good], [opt, "11" * (bb + n_extra)]], ["IN", "OUT"], rng):
                        out.append((tool, "counter-or-tweak-too-long-by-%d" % n_extra, args))
                out += [(tool, "counter-or-tweak-bad-hex", a) for a in _perms([b, ["-k", good], [opt, "12xx"]], ["IN", "OUT"], rng, 3)]
            # the same key/size classes with the options in other orders
            for cls, kh in (("key-too-short", good[:2 * (bb - 1)]), ("key-too-long", "ab" * (maxk + 1))):
                out += [(tool, cls + "-reordered", a) for a in _perms([b, ["-k", kh]], ["IN", "OUT"], rng, 2)]
            if bb == 8:
                # a key legal for 128-bit blocks but too long for 64-bit blocks, with -b after -k
                out.append((tool, "key-too-long-for-64-b-after-k", ["-k", "ab" * (maxk + 4), "-b", "64", "IN", "OUT"]))
    return out


def run(out):
    variants = [("prod", 1.0), ("asan", 0.35)] if out.tier == "quick" else [("prod", 1.0), ("asan", 0.5), ("clang", 0.3), ("prod+O0", 0.1)]
    base = max(20, int((240 if out.tier == "quick" else 3000) * getattr(out, "scale", 1.0)))
    wd = core.workdir()
    env = core.san_env("asan")
    for vname, frac in variants:
        tools, oracle = build_tools(vname)
        cases = gen_cases(out.seed, int(base * frac))

        def one(ic):
            i, c = ic
            rng = random.Random(c["seed"])
            pfx = os.path.join(wd, "c20-%s-%d" % (vname.replace("+", "_"), i))
            inp, outp, exp, expm, back = pfx + ".in", pfx + ".out", pfx + ".exp", pfx + ".expm", pfx + ".back"
            if rng.random() < 0.12:       # input and output names that differ only in letter case are different files here
                inp, outp = pfx + ".Data.BIN", pfx + ".data.bin"
            data = rng.randbytes(c["len"]) if rng.random() < 0.9 else bytes(c["len"])
            with open(inp, "wb") as f:
                f.write(data)
            groups = [["-b", str(c["bb"] * 8)], ["-k", c["khex"]]]
            if c["bb"] == 16 and rng.random() < 0.3:
                groups = groups[1:]                      # 128 is the default block size
            if c["thex"] is not None:
                groups.append(["-t" if c["tool"] == "skinny-tweak" else "-c", c["thex"]])
            if c["dec"]:
                groups.append(["-d"])
            rng.shuffle(groups)                          # options may come in any order
            dup = None
            if rng.random() < 0.2:
                # an option given twice: getopt-style tools let the last one win (or may refuse the command line);
                # a decoy value is inserted somewhere before the real one
                j = rng.randrange(len(groups)); g = groups[j]
                if g[0] == "-k":
                    dk = rng.randbytes(rng.choice([len(c["key"]), (2 if c["tool"] == "skinny-tweak" else 3) * c["bb"], c["bb"]]))
                    decoy = ["-k", dk.hex()]
                elif g[0] in ("-c", "-t"):
                    decoy = [g[0], rng.randbytes(rng.randrange(1, c["bb"] + 1)).hex()]
                elif g[0] == "-b":
                    decoy = ["-b", rng.choice(["64", "128"])]
                else:
                    decoy = ["-d"]
                groups.insert(rng.randrange(j + 1), decoy); dup = decoy[0]
            args = [a for g in groups for a in g]
            res = []
            desc = {"tool": c["tool"], "variant": vname, "block": c["bb"] * 8, "file_length": c["len"], "key_len": len(c["key"]), "key": c["khex"],
                    "counter_or_tweak": c["thex"], "decrypt": c["dec"]}
            if rng.random() < 0.2:
                # the output path already holds a longer file from an earlier run: it must be replaced, not overwritten in part
                with open(outp, "wb") as f:
                    f.write(b"\xA7" * (c["len"] + 1 + rng.randrange(5000)))
                desc["output_path"] = "already holds a longer file"
                res.append(("note:stale", "", desc))
            try:
                src = inp
                if c["len"] and c["len"] < 200000 and rng.random() < 0.15:
                    # the input arrives through a named pipe in irregular pieces (short reads in the middle of the stream)
                    import threading, time as _t
                    src = pfx + ".fifo"
                    os.mkfifo(src)
                    cuts = sorted(rng.sample(range(1, c["len"]), min(c["len"] - 1, rng.randrange(1, 7)))) if c["len"] > 1 else []

                    def feed(path=src, cuts=cuts):
                        try:
                            fd = os.open(path, os.O_WRONLY)
                            prev = 0
                            for q in cuts + [len(data)]:
                                os.write(fd, data[prev:q]); prev = q
                                _t.sleep(0.01)
                            os.close(fd)
                        except OSError:
                            pass
                    threading.Thread(target=feed, daemon=True).start()
                    desc["input"] = "named pipe written in %d pieces" % (len(cuts) + 1)
                    res.append(("note:fifo", "", desc))
                p = subprocess.run([tools[c["tool"]]] + args + [src, outp], stdout=subprocess.PIPE, stderr=subprocess.PIPE, env=env, timeout=120)
                mode = {"skinny-ctr": "ctr", "skinny-tweak": "tweak", "skinny-ecb": "ecb"}[c["tool"]]
                oargs = [mode, str(c["bb"]), c["key"].hex(), c["tw"].hex() if c["tw"] is not None else "-", "dec" if c["dec"] else "enc", inp]
                p1 = subprocess.run([oracle] + oargs + [exp, "lib"], stdout=subprocess.PIPE, stderr=subprocess.PIPE, env=env, timeout=120)
                p2 = subprocess.run([oracle] + oargs + [expm, "model"], stdout=subprocess.PIPE, stderr=subprocess.PIPE, env=env, timeout=120)
                if p1.returncode != 0 or p2.returncode != 0:
                    return [("harness", "oracle failed rc=%s/%s" % (p1.returncode, p2.returncode), desc)]
                got = open(outp, "rb").read() if os.path.exists(outp) else None
                want, wantm = open(exp, "rb").read(), open(expm, "rb").read()
                wantlen = c["len"] if mode == "ctr" else c["len"] // c["bb"] * c["bb"]
                if dup:
                    desc["option_given_twice"] = dup; desc["argv"] = args
                    res.append(("note:dup", "", desc))
                if dup and p.returncode != 0 and got is None:
                    res.append(("note:duplicate-refused", "", desc))      # refusing a repeated option is acceptable
                elif p.returncode != 0:
                    res.append(("%s:valid-invocation-exit-%d" % (c["tool"], p.returncode), p.stderr.decode("utf-8", "replace")[-400:], desc))
                elif got is None:
                    res.append(("%s:no-output-file" % c["tool"], "", desc))
                elif len(got) != wantlen:
                    res.append(("%s:output-length-%s" % (c["tool"], "too-long" if len(got) > wantlen else "too-short"), "got %d want %d" % (len(got), wantlen), desc))
                elif got != want:
                    k = next(j for j in range(len(got)) if got[j] != want[j])
                    res.append(("%s:output-differs-from-library-api" % c["tool"], "first differing byte %d (block %d)" % (k, k // c["bb"]), desc))
                elif want != wantm:
                    res.append(("%s:library-differs-from-model" % c["tool"], "", desc))
                else:
                    # second run restores the input
                    args2 = [a for a in args if a != "-d"]
                    if mode != "ctr" and not c["dec"]:
                        args2 = args2 + ["-d"]
                    p3 = subprocess.run([tools[c["tool"]]] + args2 + [outp, back], stdout=subprocess.PIPE, stderr=subprocess.PIPE, env=env, timeout=120)
                    b = open(back, "rb").read() if os.path.exists(back) else None
                    if p3.returncode != 0 or b != data[:wantlen]:
                        res.append(("%s:second-run-does-not-restore-input" % c["tool"], "rc=%d" % p3.returncode, desc))
            except subprocess.TimeoutExpired:
                res.append(("inconclusive", "tool timed out", desc))
            finally:
                for f in (inp, outp, exp, expm, back, pfx + ".fifo"):
                    try: os.unlink(f)
                    except OSError: pass
            return res

        for (i, c), res in zip(enumerate(cases), core.pool().map(one, enumerate(cases))):
            out.evaluations += 1
            out.distinct.add(int(hashlib.sha1(repr((c["tool"], c["bb"], c["len"], c["key"], c["tw"], c["dec"])).encode()).hexdigest()[:15], 16))
            out.counters["valid_invocations"] = out.counters.get("valid_invocations", 0) + 1
            out.counters["invocations_" + c["tool"]] = out.counters.get("invocations_" + c["tool"], 0) + 1
            if c["len"] % c["bb"]:
                out.counters["files_with_trailing_partial_block"] = out.counters.get("files_with_trailing_partial_block", 0) + 1
            if c["len"] >= 1048576:
                out.counters["files_of_1MiB_or_more"] = out.counters.get("files_of_1MiB_or_more", 0) + 1
            if c["len"] > 1024:
                out.counters["files_longer_than_one_io_chunk"] = out.counters.get("files_longer_than_one_io_chunk", 0) + 1
            if len(out.samples) < 4 and i % 7 == 3:
                out.samples.append({"tool": c["tool"], "block": c["bb"] * 8, "file_length": c["len"], "key": c["khex"], "counter_or_tweak": c["thex"], "decrypt": c["dec"]})
            for key, msg, desc in res:
                if key == "harness":
                    out.harness_errors.append({"detail": msg, "case": desc})
                elif key == "note:stale":
                    out.counters["runs_whose_output_path_already_held_a_longer_file"] = out.counters.get("runs_whose_output_path_already_held_a_longer_file", 0) + 1
                elif key == "note:fifo":
                    out.counters["inputs_fed_through_a_named_pipe_in_pieces"] = out.counters.get("inputs_fed_through_a_named_pipe_in_pieces", 0) + 1
                elif key == "note:dup":
                    out.counters["command_lines_with_a_repeated_option"] = out.counters.get("command_lines_with_a_repeated_option", 0) + 1
                elif key.startswith("note:"):
                    out.counters["repeated_option_command_lines_refused_by_tool"] = out.counters.get("repeated_option_command_lines_refused_by_tool", 0) + 1
                elif key == "inconclusive":
                    out.inconclusive.append({"reason": msg, "case": desc})
                else:
                    out.violation("C20:" + key, detail={"message": msg, "case": desc}, replay={"driver": "c20", "case": desc, "seed": out.seed})
        # invalid invocations
        inp = os.path.join(wd, "c20-inv-in-" + vname.replace("+", "_"))
        with open(inp, "wb") as f:
            f.write(b"0123456789abcdef" * 5)

        def inv(job):
            j, (tool, cls, args) = job
            outp = os.path.join(wd, "c20-inv-%s-%d.out" % (vname.replace("+", "_"), j))
            a = [inp if x == "IN" else outp if x == "OUT" else os.path.join(wd, "does-not-exist") if x == "MISSING" else x for x in args]
            try:
                p = subprocess.run([tools[tool]] + a, stdout=subprocess.PIPE, stderr=subprocess.PIPE, env=env, timeout=60)
            except subprocess.TimeoutExpired:
                return ("inconclusive", tool, cls, args)
            made = os.path.exists(outp)
            if made:
                os.unlink(outp)
            if p.returncode == 0:
                return ("C20:%s:invalid-invocation-exit-0:%s" % (tool, cls), tool, cls, args)
            if p.returncode < 0 or p.returncode > 100:
                return ("C20:%s:invalid-invocation-crashed:%s" % (tool, cls), tool, cls, args)
            if made:
                return ("C20:%s:invalid-invocation-left-output-file:%s" % (tool, cls), tool, cls, args)
            return None
        jobs = list(enumerate(invalid_cases(out.seed)))
        for (j, (tool, cls, args)), r in zip(jobs, core.pool().map(inv, jobs)):
            out.evaluations += 1
            out.distinct.add(int(hashlib.sha1(repr((tool, cls, args)).encode()).hexdigest()[:15], 16))
            out.counters["invalid_invocations"] = out.counters.get("invalid_invocations", 0) + 1
            if r and r[0] == "inconclusive":
                out.inconclusive.append({"reason": "tool timed out", "args": args})
            elif r:
                out.violation(r[0], detail={"tool": tool, "class": cls, "args": args}, replay={"driver": "c20", "args": args})
        os.unlink(inp)
        out.variants.append(vname)


def key_length_sweep(out, vname="prod"):
    """C10 through the command-line tools: every key length 1..(max+3) for every tool and block size, with -k before
    and after -b: accepted iff in the documented range, and the output equals the library API (zero-padded key)."""
    import itertools
    tools, oracle = build_tools(vname)
    wd = core.workdir()
    env = core.san_env("asan")
    rng = random.Random(out.seed * 31 + 10)
    inp = os.path.join(wd, "c10-tools-in")
    data = bytes(rng.getrandbits(8) for _ in range(100))
    with open(inp, "wb") as f:
        f.write(data)
    jobs = []
    for tool in ("skinny-ctr", "skinny-tweak", "skinny-ecb"):
        for bb in (8, 16):
            maxk = 2 * bb if tool == "skinny-tweak" else 3 * bb
            for L in range(1, maxk + 4):
                for order in (0, 1, 2):
                    jobs.append((tool, bb, L, order, bytes(rng.getrandbits(8) for _ in range(L))))

    def one(job):
        tool, bb, L, order, key = job
        outp = os.path.join(wd, "c10-tools-%s-%d-%d-%d.out" % (tool, bb, L, order))
        exp = outp + ".exp"
        g = [["-b", str(bb * 8)], ["-k", spell_hex(random.Random(L * 131 + bb + order), key)]]      # the key is spelled in one of the five accepted styles (separators, case)
        if order == 1:
            g.reverse()
        if order == 2:      # -k given twice (an earlier key of the maximum length): the last one counts, or the tool may refuse the command line
            g.insert(1, ["-k", bytes((b * 7 + 0x5B) & 0xFF or 1 for b in range(2 * bb if tool == "skinny-tweak" else 3 * bb)).hex()])
        try:
            p = subprocess.run([tools[tool]] + [a for x in g for a in x] + [inp, outp], stdout=subprocess.PIPE, stderr=subprocess.PIPE, env=env, timeout=60)
        except subprocess.TimeoutExpired:
            return ("inconclusive", job)
        maxk = 2 * bb if tool == "skinny-tweak" else 3 * bb
        legal = bb <= L <= maxk
        made = os.path.exists(outp)
        res = None
        if legal:
            mode = {"skinny-ctr": "ctr", "skinny-tweak": "tweak", "skinny-ecb": "ecb"}[tool]
            subprocess.run([oracle, mode, str(bb), key.hex(), "-", "enc", inp, exp, "model"], stdout=subprocess.PIPE, stderr=subprocess.PIPE, env=env, timeout=60)
            want = open(exp, "rb").read() if os.path.exists(exp) else None
            got = open(outp, "rb").read() if made else None
            if p.returncode != 0 and order == 2 and not made:
                res = None       # refusing a repeated option is acceptable
            elif p.returncode != 0:
                res = "legal-key-length-rejected-by-tool"
            elif got != want:
                res = "tool-output-differs-from-zero-padded-key-model"
        else:
            if p.returncode == 0:
                res = "illegal-key-length-accepted-by-tool"
            elif made:
                res = "rejected-invocation-left-output-file"
        for f in (outp, exp):
            try: os.unlink(f)
            except OSError: pass
        return (res, job)
    for res, job in core.pool().map(one, jobs):
        tool, bb, L, order, key = job
        out.evaluations += 1
        out.distinct.add(hash(("c10tool", tool, bb, L, order)) & 0x7FFFFFFFFFFFFFFF)
        out.counters["tool_key_length_invocations"] = out.counters.get("tool_key_length_invocations", 0) + 1
        if res == "inconclusive":
            out.inconclusive.append({"reason": "tool timed out", "job": [tool, bb, L, order]})
        elif res:
            out.violation("C10:%s:block%d:%s:%s" % (tool, bb * 8, ("b-before-k", "k-before-b", "k-given-twice")[order], res),
                          detail={"tool": tool, "block": bb * 8, "key_length": L, "order": ("-b first", "-k first", "-b, then -k twice (the last one counts)")[order]}, replay={"driver": "c20.key_length_sweep", "seed": out.seed})
    os.unlink(inp)
