"""Per-property check definitions.  Each function receives an Outcome, builds
the variants it needs from /repo's working tree, runs drivers and lets
core.finish() decide."""
import json, os, subprocess, sys
from . import core
from .core import build_driver, run_sharded, HarnessError

REGISTRY = {}
LEVEL = {"C16": "fault_enumeration"}


def check(pid):
    def deco(f):
        REGISTRY[pid] = f
        return f
    return deco


def n(out, quick, thorough):
    v = quick if out.tier == "quick" else thorough
    return max(1, int(v * getattr(out, "scale", 1.0)))


HIST = ["hist_ctr.c", "hist_par.c"]


def replay(prop, path):
    """Re-run the single case recorded in a replay file and report whether it still violates."""
    j = json.load(open(path))
    w = (j.get("witnesses") or [None])[0]
    if not w or not isinstance(w.get("replay"), dict) or "driver" not in w["replay"]:
        print("replay file has no machine-replayable witness; key=%s" % j.get("key")); return 2
    rp = w["replay"]
    out = core.Outcome(prop, "quick", int(rp.get("seed", 1)), LEVEL.get(prop, "exploration"))
    drv = rp["driver"]
    srcs = {"drv_ctr": ["drv_ctr.c"] + HIST, "drv_par": ["drv_par.c"] + HIST}.get(drv)
    if not srcs:
        print("replay: driver %s is replayed by re-running the check with VERIF_SEED=%s" % (drv, rp.get("seed"))); return 2
    vname = rp.get("variant", "prod")
    exe = build_driver(drv, srcs, vname)
    args = ["--prop", prop, "--mode", rp.get("mode", "")]
    run_sharded(out, exe, args, vname, 1, shards=1, first=int(rp["case"]))
    for v in out.violations:
        print("VIOLATION property=%s replay=%s" % (prop, path))
        print("  key=%s" % v["key"])
    print("replay: %d violation(s) reproduced" % len(out.violations))
    return 1 if out.violations else 0


# --------------------------------------------------------------------- C05
@check("C05")
def c05(out):
    out.rule = ("CTR histories (init / key / tweak / counter / encrypt with arbitrary cuts and placements) generated from (seed, case index); "
                "structured cases enumerate every total length 0..3 batches+17 x 6 cut patterns x 5 counter kinds, the rest are random; each history is run on every "
                "back end (pinned through the cap hook, pinning confirmed from the handle) and every judged output byte is compared with an independent "
                "reference CTR (model block cipher + big-endian counter). A case is non-trivial if it has >2 operations; distinct = distinct history hashes.")
    variants = [("prod", n(out, 4200, 240000)), ("asan", n(out, 900, 30000))]
    if out.tier == "thorough":
        variants += [("clang", 60000), ("prod+W32", 30000), ("prod+UNAL0", 30000), ("asan+UNAL0", 9000), ("msan", 9000), ("prod+O0", 9000)]
    for vname, cases in variants:
        exe = build_driver("drv_ctr", ["drv_ctr.c"] + HIST, vname)
        nstruct = min(cases // 2, 3 * (3 * 128 + 18) * 30)
        run_sharded(out, exe, ["--prop", "C05", "--mode", "model", "--structured", str(nstruct)], vname, cases)
    out.assumptions += ["reference models (self-tested on the ten published vectors each run) are the specification",
                        "back ends not available on this CPU/build cannot be exercised",
                        "behaviour after a mid-stream key/tweak change without a counter set is outside this property (judged by C06)"]


# --------------------------------------------------------------------- C06
@check("C06")
def c06(out):
    out.rule = ("whole-API histories on CTR objects (init, keys of any legal length, tweaked keys, tweaks, counters, encrypt of any size/placement, mid-stream key/tweak "
                "changes, invalid calls, cleanup, re-init, use after cleanup) and on parallel-ECB objects (set_key, encrypt/decrypt/crypt of any block count, invalid sizes, swap); "
                "each history runs on every back end available and full transcripts (every return value and output byte) must equal the generic back end's. "
                "non-trivial: >2 operations; distinct = distinct history hashes.")
    variants = [("prod", n(out, 4500, 240000)), ("asan", n(out, 900, 30000))]
    if out.tier == "thorough":
        variants += [("clang", 60000), ("prod+W32", 30000), ("prod+UNAL0", 30000)]
    for vname, cases in variants:
        exe = build_driver("drv_ctr", ["drv_ctr.c"] + HIST, vname)
        run_sharded(out, exe, ["--prop", "C06", "--mode", "xbe"], vname, cases, label="ctr")
        exe = build_driver("drv_par", ["drv_par.c"] + HIST, vname)
        run_sharded(out, exe, ["--prop", "C06", "--mode", "xbe"], vname, cases, label="par")
    out.assumptions += ["only back ends the host CPU can execute are compared (generic, 128-bit, 256-bit on this host)",
                        "back end pinned via the RWEATHER_SKINNY_C_VERIF cap hook; pinning is confirmed from the handle's vtable"]
