"""Per-property check definitions.  Each function receives an Outcome, builds
the variants it needs from /repo's working tree, runs drivers and lets
core.finish() decide."""
import json, os, subprocess, sys
from . import core
from .core import build_driver, run_sharded, HarnessError

REGISTRY = {}
LEVEL = {"C16": "fault_enumeration"}


def check(pid):
    def deco(f):
        REGISTRY[pid] = f
        return f
    return deco


# thorough tiers that finished in well under two minutes are deepened by these factors
THOROUGH_DEPTH = {"C01": 12, "C02": 12, "C04": 12, "C05": 4, "C06": 4, "C09": 6, "C10": 12, "C13": 12, "C14": 6, "C15": 6, "C16": 20, "C17": 15, "C19": 3, "C11": 4, "C03": 3, "C07": 2}


def n(out, quick, thorough):
    v = quick if out.tier == "quick" else thorough * THOROUGH_DEPTH.get(out.prop, 1)
    return max(1, int(v * getattr(out, "scale", 1.0)))


HIST = ["hist_ctr.c", "hist_par.c"]


def replay(prop, path):
    """Re-run the single case recorded in a replay file and report whether it still violates."""
    j = json.load(open(path))
    w = (j.get("witnesses") or [None])[0]
    if not w or not isinstance(w.get("replay"), dict) or "driver" not in w["replay"]:
        print("replay file has no machine-replayable witness; key=%s" % j.get("key")); return 2
    rp = w["replay"]
    out = core.Outcome(prop, "quick", int(rp.get("seed", 1)), LEVEL.get(prop, "exploration"))
    drv = rp["driver"]
    srcs = {"drv_ctr": ["drv_ctr.c"] + HIST, "drv_par": ["drv_par.c"] + HIST}.get(drv)
    if not srcs:
        print("replay: driver %s is replayed by re-running the check with VERIF_SEED=%s" % (drv, rp.get("seed"))); return 2
    vname = rp.get("variant", "prod")
    exe = build_driver(drv, srcs, vname)
    args = ["--prop", prop, "--mode", rp.get("mode", "")]
    run_sharded(out, exe, args, vname, 1, shards=1, first=int(rp["case"]))
    for v in out.violations:
        print("VIOLATION property=%s replay=%s" % (prop, path))
        print("  key=%s" % v["key"])
    print("replay: %d violation(s) reproduced" % len(out.violations))
    return 1 if out.violations else 0


def _huge(out, mode, jobs, vname="prod"):
    """single calls of 4 GiB + 4 KiB on a 257-fold aliased 16 MiB memfd mapping (thorough tier only)"""
    exe = build_driver("drv_huge", ["drv_huge.c"] + HIST, vname)
    env = core.san_env(vname)
    futs = [core.pool().submit(core.run_driver, [exe, "--mode", mode, "--cipher", str(ci), "--cap", str(cap), "--dec", str(dec), "--seed", str(out.seed), "--variant", vname], env, 1800) for ci, cap, dec in jobs]
    for f in futs:
        rr = f.result()
        out.absorb(rr, "huge")
        out.evaluations += 1
    out.distinct_extra += len(jobs)


# --------------------------------------------------------------------- C05
@check("C05")
def c05(out):
    out.rule = ("CTR histories (init / key / tweak / counter / encrypt with arbitrary cuts and placements) generated from (seed, case index); "
                "structured cases enumerate every total length 0..3 batches+17 x 6 cut patterns x 6 counter kinds (default, wrap, carry chain through k bytes, random, short, low word at its top-bit boundary), the rest are random; each history is run on every "
                "back end (pinned through the cap hook, pinning confirmed from the handle) and every judged output byte is compared with an independent "
                "reference CTR (model block cipher + big-endian counter). A case is non-trivial if it has >2 operations; distinct = distinct history hashes.")
    variants = [("prod", n(out, 4200, 240000)), ("asan", n(out, 900, 30000)), ("prod+W32+UNAL0", n(out, 900, 30000)), ("prod+W32", n(out, 1800, 30000)), ("prod+NEUTRAL", n(out, 900, 9000))]
    if out.tier == "thorough":
        variants += [("clang", 60000), ("prod+UNAL0", 30000), ("asan+UNAL0", 9000), ("msan", 9000), ("prod+O0", 9000), ("clang+W32+NATIVE", 9000), ("prod+Os+W32", 9000)]
    for vname, cases in variants:
        exe = build_driver("drv_ctr", ["drv_ctr.c"] + HIST, vname)
        nstruct = min(cases // 2, 3 * (3 * 128 + 18) * 36)
        run_sharded(out, exe, ["--prop", "C05", "--mode", "model", "--structured", str(nstruct)], vname, cases)
        if vname in ("prod", "clang", "prod+W32+UNAL0"):
            # long-lived objects: 70 000 calls each with hundreds of rekeys and a few calls of 64 KiB .. 1 MiB
            mcases = (7 if out.tier == "quick" else 42) if vname == "prod" else 7
            run_sharded(out, exe, ["--prop", "C05", "--mode", "marathon", "--marathon-ops", "70000" if vname == "prod" else "20000", "--case-timeout", "600"], vname, mcases, shards=7, label="marathon")
    if out.tier == "thorough":
        _huge(out, "ctr", [(0, 2, 0), (1, 2, 0), (2, 2, 0), (0, 1, 0), (1, 0, 0)])
    out.assumptions += ["reference models (self-tested on the ten published vectors each run) are the specification",
                        "back ends not available on this CPU/build cannot be exercised",
                        "behaviour after a mid-stream key/tweak change without a counter set is outside this property (judged by C06)"]


# --------------------------------------------------------------------- C06
@check("C06")
def c06(out):
    out.rule = ("whole-API histories on CTR objects (init, keys of any legal length, tweaked keys, tweaks, counters, encrypt of any size/placement, mid-stream key/tweak "
                "changes, invalid calls, cleanup, re-init, use after cleanup) and on parallel-ECB objects (set_key, encrypt/decrypt/crypt of any block count, invalid sizes, swap); "
                "each history runs on every back end available and full transcripts (every return value and output byte) must equal the generic back end's. "
                "non-trivial: >2 operations; distinct = distinct history hashes.")
    variants = [("prod", n(out, 4500, 240000)), ("asan", n(out, 900, 30000)), ("prod+W32+UNAL0", n(out, 900, 30000))]
    if out.tier == "thorough":
        variants += [("clang", 60000), ("prod+W32", 30000), ("prod+UNAL0", 30000), ("clang+W32+UNAL0", 20000)]
    for vname, cases in variants:
        exe = build_driver("drv_ctr", ["drv_ctr.c"] + HIST, vname)
        run_sharded(out, exe, ["--prop", "C06", "--mode", "xbe"], vname, cases, label="ctr")
        exe = build_driver("drv_par", ["drv_par.c"] + HIST, vname)
        run_sharded(out, exe, ["--prop", "C06", "--mode", "xbe"], vname, cases, label="par")
    out.assumptions += ["only back ends the host CPU can execute are compared (generic, 128-bit, 256-bit on this host)",
                        "back end pinned via the RWEATHER_SKINNY_C_VERIF cap hook; pinning is confirmed from the handle's vtable"]


# --------------------------------------------------------------------- C01..C04
def _blk(out, prop, mode, variants):
    for vname, cases in variants:
        exe = build_driver("drv_blk", ["drv_blk.c"] + HIST, vname)
        run_sharded(out, exe, ["--prop", prop, "--mode", mode], vname, cases)


@check("C01")
def c01(out):
    out.rule = ("case index -> (variant of six, direction, input kind): every value of every cell under zero and random keys (8192 structured cases per variant/direction), "
                "walking-one keys over every tweakey bit, special keys (all-ones, TK1/TK2/TK3-only), then uniformly random key/block pairs; library set_key + ecb_encrypt/decrypt "
                "compared with an independent cell/table model of the specification (both directions directly). distinct = distinct (variant,direction,key,block) hashes; all are non-trivial.")
    v = [("prod", n(out, 12 * 11000, 12 * 400000)), ("asan", n(out, 12 * 9000, 12 * 60000)), ("prod+W32", n(out, 12 * 9000, 12 * 100000)),
         ("prod+NEUTRAL", n(out, 12 * 9000, 12 * 100000)), ("prod+W32+NEUTRAL", n(out, 12 * 9000, 12 * 100000)),
         ("prod+Os+W32", n(out, 12 * 4000, 12 * 50000)), ("prod+NATIVE+NDEBUG+UCHAR", n(out, 12 * 4000, 12 * 50000)), ("clang+Os+NATIVE", n(out, 12 * 4000, 12 * 50000))]
    if out.tier == "thorough":
        v += [("clang", 12 * 100000), ("msan", 12 * 20000), ("prod+O0", 12 * 30000), ("prod+UNAL0", 12 * 30000), ("prod+W32+NEUTRAL", 12 * 30000), ("clang+W32", 12 * 30000)]
    _blk(out, "C01", "c01", v)
    out.assumptions += ["the cell/table reference model (self-tested against the six published vectors every run) is the specification",
                        "32-bit and byte-order-neutral source paths are compiled for and run on the 64-bit little-endian host via the switch hook"]


@check("C02")
def c02(out):
    out.rule = ("case index -> (rounds 5..8, schedule mode, entry point of four: set_tweak+crypt / crypt_tweaked / fresh schedule / set_tweak(NULL)) x input kind: walking-one keys (128), "
                "walking-one tweaks (64), single-nibble tweaks (256), every nibble value in every cell (256), special keys exercising the k0' rotation, then random (key,tweak,block) triples; "
                "compared with an independent model of MANTIS-r (forward cipher for encrypt schedules, the model's own inverse for decrypt schedules). distinct = distinct input hashes.")
    v = [("prod", n(out, 32 * 3000, 32 * 150000)), ("asan", n(out, 32 * 1200, 32 * 20000)), ("prod+W32", n(out, 32 * 1500, 32 * 40000)), ("prod+NEUTRAL", n(out, 32 * 1500, 32 * 40000)),
         ("prod+W32+NEUTRAL", n(out, 32 * 1500, 32 * 40000)), ("prod+Os+W32", n(out, 32 * 800, 32 * 10000)), ("prod+NATIVE+NDEBUG+UCHAR", n(out, 32 * 800, 32 * 10000)), ("clang+Os+NATIVE", n(out, 32 * 800, 32 * 10000))]
    if out.tier == "thorough":
        v += [("clang", 32 * 40000), ("msan", 32 * 8000), ("prod+O0", 32 * 10000), ("prod+W32+NEUTRAL", 32 * 10000)]
    _blk(out, "C02", "c02", v)
    out.assumptions += ["the reference model (self-tested against the four published MANTIS vectors every run) is the specification"]


@check("C03")
def c03(out):
    out.rule = ("case index mod 4: 0,1 = SKINNY single-block D(E(x)) and E(D(x)) under plain keys of every primary size and tweaked schedules; 2 = parallel ECB round trips for every block count "
                "0..40 then random counts up to 300, both orders, in place and out of place, on every back end (Mantis via swap_modes, plus double-swap identity); 3 = Mantis histories of 1..40 operations "
                "over set_key(mode)/set_tweak/set_tweak(NULL)/swap_modes/crypt/crypt_tweaked checked against a (key,tweak,mode,rounds) model, and after every swap the schedule is compared behaviourally with a fresh schedule keyed in the other mode.")
    v = [("prod", n(out, 40000, 2000000)), ("asan", n(out, 8000, 200000)), ("prod+W32", n(out, 8000, 200000)), ("prod+NEUTRAL", n(out, 6000, 100000)), ("prod+W32+UNAL0", n(out, 6000, 100000)), ("prod+W32+NEUTRAL", n(out, 6000, 100000))]
    if out.tier == "thorough":
        v += [("clang", 300000), ("prod+UNAL0", 100000), ("clang+W32+NEUTRAL", 100000), ("msan", 40000)]
    _blk(out, "C03", "c03", v)
    out.assumptions += ["round-trip identities are metamorphic; absolute correctness is tied to the models by C01/C02/C07"]


@check("C04")
def c04(out):
    out.rule = ("histories of 2..60 operations (1 in 50: chains of 1100) over set_tweaked_key (any legal key size) / set_tweak (length 1..block, structured and random bytes, NULL) / encrypt / decrypt "
                "on Skinny128TweakedKey_t and Skinny64TweakedKey_t; every block is compared with the reference cipher recomputed from scratch from (key, latest tweak zero-padded, domain bit). "
                "The same through the CTR tweak API on every back end (model-tweaked mode). distinct = distinct (key, tweak-sequence) hashes with >2 operations.")
    v = [("prod", n(out, 5000, 250000)), ("asan", n(out, 1200, 30000)), ("prod+W32", n(out, 1200, 30000)), ("prod+NEUTRAL", n(out, 1200, 30000))]
    if out.tier == "thorough":
        v += [("clang", 30000), ("msan", 10000)]
    _blk(out, "C04", "c04", v)
    for vname, cases in [("prod", n(out, 2400, 90000)), ("asan", n(out, 600, 12000))]:
        exe = build_driver("drv_ctr", ["drv_ctr.c"] + HIST, vname)
        run_sharded(out, exe, ["--prop", "C04", "--mode", "model-tweaked"], vname, cases, label="ctr")
    out.assumptions += ["reference model is stateless w.r.t. tweak history, so any history dependence of the implementation shows as a mismatch"]


# --------------------------------------------------------------------- C07
@check("C07")
def c07(out):
    out.rule = ("parallel-ECB histories: structured = every block count 0..27 x {encrypt, decrypt} x {in place, out of place} per cipher; random = histories with counts up to 300 blocks, "
                "remainders, zero-length calls, any legal key length, random placements in exact-extent guard buffers; every back end pinned; each judged call compared with the library's own "
                "single-block functions block by block (Mantis: i-th tweak) and with the reference model; parallel_size checked to be a positive multiple of the block size.")
    v = [("prod", n(out, 6000, 300000)), ("asan", n(out, 1200, 40000)), ("prod+W32", n(out, 1200, 40000)), ("prod+UNAL0", n(out, 1200, 40000))]
    if out.tier == "thorough":
        v += [("clang", 60000), ("prod+W32+UNAL0", 30000), ("msan", 9000), ("prod+O0", 9000), ("prod+NEUTRAL", 9000)]
    for vname, cases in v:
        exe = build_driver("drv_par", ["drv_par.c"] + HIST, vname)
        run_sharded(out, exe, ["--prop", "C07", "--mode", "model", "--structured", str(3 * 28 * 2 * 2)], vname, cases)
        if vname in ("prod", "clang"):
            # single calls of 4096 .. 1048577 blocks (32 KiB .. 16 MiB): every cipher x back end x direction x in-place
            run_sharded(out, exe, ["--prop", "C07", "--mode", "big", "--case-timeout", "600"], vname, 36 * 13 if vname == "prod" else 36 * 4, shards=12, label="big")
    if out.tier == "thorough":
        _huge(out, "par", [(0, 2, 0), (0, 2, 1), (1, 2, 0), (1, 2, 1), (2, 2, 0), (2, 2, 1), (0, 1, 1), (1, 0, 1)])
    out.assumptions += ["single-block functions are tied to the specification by C01/C02",
                        "calls above 4 GiB are exercised in the thorough tier only (about 30-50 s of CPU each)"]


# --------------------------------------------------------------------- C10
@check("C10")
def c10(out):
    out.rule = ("case index enumerates (cipher, entry point of 5 + 3 Mantis, key length 0..3 blocks+16 then 7 huge values; Mantis: size 0..40+huge x rounds 0..20+huge) completely, then repeats with "
                "fresh random key bytes; key buffer holds exactly the bytes a correct call may read and abuts a PROT_NONE page; stack painted before each call; oracle: accept/reject per documented range, "
                "accepted => outputs equal those of the zero-padded primary-size key through the same entry point and those of the reference model, rejected => return 0, schedule fields untouched and "
                "later outputs unchanged (also after a later tweak change, against a twin object). CTR and parallel entry points on every back end. Huge lengths include values that wrap into the legal range when "
                "scaled by 2..32 modulo 2^32. The three example tools are swept over every key length 1..max+3 for both block sizes with -k before and after -b. distinct = distinct (entry, length, key bytes).")
    out.exhaustive = False
    v = [("prod", n(out, 12000, 400000)), ("asan", n(out, 6000, 60000)), ("msan", n(out, 4000, 40000)), ("prod+W32", n(out, 4000, 60000)), ("clang+W32+NEUTRAL", n(out, 3000, 60000))]
    if out.tier == "thorough":
        v += [("clang", 60000), ("prod+NEUTRAL", 60000), ("prod+O0", 20000), ("prod+W32+UNAL0", 20000), ("clang+Os+W32", 20000)]
    for vname, cases in v:
        exe = build_driver("drv_keys", ["drv_keys.c"] + HIST, vname)
        run_sharded(out, exe, ["--prop", "C10", "--mode", "c10"], vname, cases)
    from . import c20 as tools_mod
    tools_mod.key_length_sweep(out)
    out.observed["key_length_dimension_exhaustive"] = "lengths 0..3*block+16 for every entry point are enumerated in the first 2*5*(3*16+17+7)*4/3 cases of every variant"
    out.assumptions += ["exhaustive over the length dimension only; key bytes are sampled"]


# --------------------------------------------------------------------- C14
@check("C14")
def c14(out):
    out.rule = ("twin histories: H = generated history on a CTR or parallel-ECB object (all states: zeroed, fresh, keyed, mid-block, mid-batch, cleaned up, re-initialised) with 1..6 invalid calls injected "
                "(NULL object, NULL key, key/tweak/counter lengths out of range incl. huge with short guarded buffers, bad Mantis rounds, sizes not a multiple of the block, NULL data pointers, use after cleanup), "
                "H' = H without them; each on every back end; invalid calls must return 0, valid calls 1, and the transcripts of the valid calls must be identical. Plus the plain key-schedule functions "
                "(set_key / set_tweaked_key / set_tweak / mantis_set_key / mantis_set_tweak) with invalid arguments on keyed schedules: return 0, documented fields and later outputs unchanged. "
                "Plus objects whose init failed because an allocation request was made to fail (allocator monitor, every request x back end x six prior handle contents): every later call must return 0 without faulting.")
    v = [("prod", n(out, 4500, 200000)), ("asan", n(out, 900, 30000))]
    if out.tier == "thorough":
        v += [("clang", 40000), ("msan", 9000), ("prod+W32", 20000)]
    for vname, cases in v:
        exe = build_driver("drv_ctr", ["drv_ctr.c"] + HIST, vname)
        run_sharded(out, exe, ["--prop", "C14", "--mode", "twin"], vname, cases, label="ctr")
        exe = build_driver("drv_par", ["drv_par.c"] + HIST, vname)
        run_sharded(out, exe, ["--prop", "C14", "--mode", "twin"], vname, cases, label="par")
        exe = build_driver("drv_keys", ["drv_keys.c"] + HIST, vname)
        run_sharded(out, exe, ["--prop", "C14", "--mode", "c14"], vname, cases * 4, label="keys")
    # objects whose init failed (allocation fault injected through the allocator monitor): every later call returns 0 and touches nothing
    exe = build_driver("drv_life", ["drv_life.c", "allocmon.c"] + HIST, "prod", extra=WRAP)
    run_sharded(out, exe, ["--prop", "C14", "--mode", "c16"], "prod", n(out, 108, 108 * 20), label="failed-init")
    out.assumptions += ["'unchanged' = all later results identical to the twin history (the property's own definition)",
                        "behaviour of void functions on NULL and NULL data pointers of parallel functions are not asserted (not promised)"]


# --------------------------------------------------------------------- C15 / C16 / C17 (allocator monitor)
WRAP = ["-Wl,--wrap=malloc,--wrap=calloc,--wrap=realloc,--wrap=free,--wrap=posix_memalign,--wrap=aligned_alloc,--wrap=memalign,--wrap=mmap,--wrap=mmap64,--wrap=munmap"]


def _life(out, prop, mode, variants):
    for vname, cases in variants:
        exe = build_driver("drv_life", ["drv_life.c", "allocmon.c"] + HIST, vname, extra=WRAP)
        run_sharded(out, exe, ["--prop", prop, "--mode", mode], vname, cases)


@check("C15")
def c15(out):
    out.rule = ("each case: 1..8 objects (CTR or parallel ECB, random cipher and back end) each with its own generated life-cycle history (use before init, init, keying, processing, cleanup, repeated cleanup, "
                "use after cleanup, re-init, invalid calls), executed interleaved; 1 case in 40 adds a 400-round init/cleanup loop. Every allocator call the library makes is logged by a link-time wrapper "
                "with (object, operation) attribution; the offline checker requires: no double/foreign/interior free, no allocator event in a call on an inert object or an invalid call, zero live blocks at "
                "quiescence, expected return values; freed blocks are quarantined PROT_NONE so any use after free faults. Repeated in a process where mlock fails; and 70 000 CTR objects of one kind alive at once "
                "on the real allocator (monitor off), all cleaned up twice: the heap in use must return to its starting value. distinct = distinct multi-object case hashes.")
    v = [("prod", n(out, 2400, 120000)), ("asan", n(out, 600, 20000))]
    if out.tier == "thorough":
        v += [("clang", 30000), ("prod+W32", 10000), ("prod+NOSIMD", 10000)]
    _life(out, "C15", "c15", v)
    # the same in a process where locking memory fails, and 70 000 objects alive at once on the real allocator (heap balance by mallinfo2)
    exe = build_driver("drv_life", ["drv_life.c", "allocmon.c"] + HIST, "prod", extra=WRAP)
    run_sharded(out, exe, ["--prop", "C15", "--mode", "c15", "--starve", "1"], "prod", n(out, 600, 12000), label="mlock-fails")
    run_sharded(out, exe, ["--prop", "C15", "--mode", "c15crowd", "--case-timeout", "600"], "prod", n(out, 9, 27), shards=9, label="crowd")
    out.assumptions += ["allocator wrapped at link time (--wrap); only calls made while a library call is in progress are attributed to the library",
                        "monitor validated each run by positive controls (dirty free, double free, leak)"]


@check("C16")
def c16(out):
    out.rule = ("complete enumeration of {3 CTR + 3 parallel-ECB init functions} x {back ends available} x {every allocation request the init makes, found by a dry run of the monitor} x "
                "{6 prior contents of the caller's handle: zero, 0xFF, 0xA5, random, stale copy of a live handle with ctx -> harness decoy, stale copy with ctx -> PROT_NONE}; repeated with fresh random bytes. "
                "After the injected failure: init must return 0, leave no live block, and a battery of every other API function plus cleanup twice must return 0 without allocator events, without freeing or "
                "writing the decoy and without faulting; a live bystander object must be unaffected. Every second sweep runs on an allocator that only guarantees 8-byte alignment; "
                "the enumeration is repeated on alternative compile-time paths (32-bit words, byte-order-neutral, unaligned off, no AVX2) and in cold processes "
                "(one freshly forked process per case, the faulted init is the first library call the process ever makes).")
    reps = n(out, 12, 400)
    v = [("prod", 108 * reps), ("asan", 108 * max(2, reps // 4)), ("prod+W32", 108 * 2), ("clang+Os+NEUTRAL", 108 * 2), ("prod+UNAL0+NOAVX2", 108 * 2)]
    if out.tier == "thorough":
        v += [("clang", 108 * 50), ("prod+NOSIMD", 108 * 10), ("prod+W32", 108 * 10), ("clang+W32+UNAL0", 108 * 10), ("prod+O0", 108 * 10), ("prod+NATIVE+NDEBUG", 108 * 10)]
    _life(out, "C16", "c16", v)
    # cold processes: every case is a freshly forked process in which no library function has run before the faulted init
    # (6 init functions x 3 caps x 4 prior contents x request 1..3 = 216 cases per sweep)
    for vname, cases in [("prod", n(out, 216, 216 * 10)), ("asan", n(out, 216, 216 * 2))]:
        exe = build_driver("drv_life", ["drv_life.c", "allocmon.c"] + HIST, vname, extra=WRAP)
        run_sharded(out, exe, ["--prop", "C16", "--mode", "c16cold"], vname, cases, label="cold-process")
    out.exhaustive = True
    out.observed["enumeration"] = "case index mod 108 = (init function 6) x (back end 3) x (prior class 6); every allocation request 1..N of the init is failed inside each case"
    out.assumptions += ["allocation points are those observed by the monitor's dry run of each init on this build"]


@check("C17")
def c17(out):
    out.rule = ("histories ending in cleanup for every object kind (CTR / parallel ECB) x cipher x back end, keyed with all-0xFF/random keys, tweaks and counters and left mid-batch so round keys, tweak, "
                "counters and buffered keystream are non-zero; the allocator wrapper scans every byte of every block at the moment the library passes it to free(). A case counts as non-vacuous only if the "
                "block held non-zero bytes right before cleanup (measured). Mandatory on the -O3 gcc and clang builds where a dead-store wipe would be optimised away. Repeated in a process where locking memory fails (mlock family -> ENOMEM through seccomp, RLIMIT_MEMLOCK=0), "
                "and with 220 objects of all kinds alive at once.")
    v = [("prod", n(out, 1800, 60000)), ("clang", n(out, 1800, 60000)), ("asan", n(out, 300, 6000)), ("prod+NOSIMD", n(out, 600, 6000)), ("clang+O2+W32", n(out, 600, 6000)),
         ("prod+LTO", n(out, 900, 20000)), ("clang+O3+NOSIMD", n(out, 600, 6000))]        # with -flto a wipe hidden behind a function in another file is visible to the optimiser again
    if out.tier == "thorough":
        v += [("clang+O2", 10000), ("prod+O2", 10000), ("prod+NOSIMD", 6000), ("prod+W32", 6000), ("clang+Os", 6000)]
    _life(out, "C17", "c17", v)
    # the same in a resource-starved process: mlock/mlock2/mlockall fail (seccomp) and RLIMIT_MEMLOCK is 0
    for vname, cases in [("prod", n(out, 600, 12000)), ("clang", n(out, 300, 6000))]:
        exe = build_driver("drv_life", ["drv_life.c", "allocmon.c"] + HIST, vname, extra=WRAP)
        run_sharded(out, exe, ["--prop", "C17", "--mode", "c17", "--starve", "1"], vname, cases, label="mlock-fails")
    nz = out.counters.get("blocks_nonzero_before_cleanup", 0)
    if nz < 10:
        out.inconclusive.append({"reason": "wipe monitor saw fewer than 10 blocks that were non-zero before cleanup (%d)" % nz})
    out.assumptions += ["block sizes taken from the matching allocation event; interior pointers (aligned contexts) are scanned over the whole underlying block"]


# --------------------------------------------------------------------- C09
@check("C09")
def c09(out):
    out.rule = ("case index mod 4 selects single-block functions (6, incl. every overlap offset -(B-1)..+(B-1)), key/tweak setting functions (8, every legal length), CTR objects (3 ciphers x back ends, "
                "every length 0..2 batches+17 and a few of 3000..4000, arbitrary stream offset, in place 1/3) or parallel ECB (0..19 blocks and up to 220, in place 1/3, Mantis tweak array); every pointer argument is "
                "placed exact-extent against a PROT_NONE page (back or front) or at misalignment 0..63 with canaries in the slack; result must equal the same call on aligned separate buffers, inputs unmodified, "
                "canaries intact, no fault. prod build = hardware guard pages, asan build = byte-exact poisoning of the slack, thorough adds memcheck NOACCESS slack. distinct = distinct (function, length, placement) configurations.")
    v = [("prod", n(out, 160000, 4000000)), ("asan", n(out, 40000, 600000)), ("prod+W32+UNAL0", n(out, 40000, 300000)), ("asan+UNAL0", n(out, 20000, 100000)), ("clang", n(out, 40000, 600000))]
    if out.tier == "thorough":
        v += [("clang+W32", 200000), ("prod+UNAL0", 300000), ("prod+W32", 300000), ("prod+O0", 100000), ("prod+NEUTRAL", 100000), ("asanclang", 100000)]
    for vname, cases in v:
        exe = build_driver("drv_buf", ["drv_buf.c"] + HIST, vname)
        run_sharded(out, exe, ["--prop", "C09", "--mode", "c09"], vname, cases)
    # byte-exact on both sides of every buffer (ASan cannot poison the bytes in front of a misaligned buffer inside its 8-byte granule):
    # the shipped build under memcheck with the slack marked NOACCESS; a small sample in the quick tier, 40 000 cases in thorough
    exe = build_driver("drv_buf_vg", ["drv_buf.c"] + HIST, "prod", extra=["-DVH_VALGRIND"])
    run_sharded(out, exe, ["--prop", "C09", "--mode", "c09", "--case-timeout", "600"], "prod", 3200 if out.tier == "quick" else 40000, label="memcheck", timeout=3000,
                wrapper=["valgrind", "-q", "--error-exitcode=99", "--exit-on-first-error=yes", "--undef-value-errors=no"])
    out.variants.append("prod under valgrind memcheck (NOACCESS slack)")
    out.assumptions += ["on the prod build an overrun smaller than the alignment slack of a misaligned placement is seen only as a damaged canary (writes) - byte-exact read detection comes from the asan and memcheck variants",
                        "partial overlap for bulk calls is not promised and not tested"]


# --------------------------------------------------------------------- C12
def _digest_compare(out, prop, base_label, what):
    base = out.digests.get(base_label, {})
    compared = 0
    for label, dg in out.digests.items():
        if label == base_label:
            continue
        common = set(dg) & set(base)
        compared += len(common)
        bad = {}
        for k in sorted(common):
            if dg[k] != base[k]:
                bad.setdefault(k[0], []).append(k)
        for sec, ks in bad.items():
            out.violation("%s:%s:%s:%s" % (prop, label, sec, what),
                          detail={"chunks_differing": len(ks), "first_chunk": {"section": ks[0][0], "first_case": ks[0][1], "cases": ks[0][2]},
                                  "hash_here": dg[ks[0]], "hash_baseline": base[ks[0]], "baseline": base_label},
                          replay={"driver": "drv_xcfg", "note": "re-run bin/check %s with VERIF_SEED=%d; chunk = 32 consecutive cases of this section in one shard" % (prop, out.seed)})
            out.vkeys["%s:%s:%s:%s" % (prop, label, sec, what)] = len(ks)
    out.observed["digest_chunks_compared_with_baseline"] = compared
    out.observed["digest_chunks_in_baseline"] = len(base)
    if compared == 0:
        out.inconclusive.append({"reason": "no digest chunk could be compared with the baseline"})


def _xcfg_variants(out):
    if out.tier == "quick":
        return ["prod", "prod+W32", "prod+UNAL0", "prod+NEUTRAL", "prod+W32+UNAL0", "prod+W32+NEUTRAL", "prod+NOSIMD", "prod+NOAVX2", "clang", "prod+O0", "clang+W32+UNAL0+NOSIMD", "clang+O1+NEUTRAL", "prod+Os", "clang+Os+W32", "prod+NATIVE", "clang+NATIVE+O2", "prod+Og+NATIVE+W32", "prod+NDEBUG+UCHAR", "clang+O1+NDEBUG+UCHAR+W32", "prod+LTO", "make"]
    vs = []
    for cc in ("prod", "clang"):
        for o in ("O0", "O1", "O2", "O3"):
            for w in ("", "+W32"):
                for u in ("", "+UNAL0"):
                    for simd in ("", "+NOAVX2", "+NOSIMD", "+NEUTRAL"):
                        vs.append(cc + "+" + o + w + u + simd)
        for o in ("Os", "Og"):
            for w in ("", "+W32"):
                for simd in ("", "+NOSIMD", "+NEUTRAL"):
                    vs.append(cc + "+" + o + w + simd)
        # user-style machine flags applied to every file (-march=native): arms conditional on __SSSE3__/__AVX2__ etc. in the core files
        for o in ("O0", "O2", "O3", "Os"):
            for w in ("", "+W32"):
                for u in ("", "+UNAL0"):
                    vs.append(cc + "+" + o + w + u + "+NATIVE")
        # release-style defines and the other char signedness
        for o in ("O0", "O2", "Os"):
            for w in ("", "+W32"):
                for simd in ("", "+NEUTRAL"):
                    vs.append(cc + "+" + o + w + simd + "+NDEBUG+UCHAR")
    return ["prod"] + vs


@check("C12")
def c12(out):
    import concurrent.futures as cf
    variants = _xcfg_variants(out)
    out.rule = ("the working tree is built in %d configurations (word size x unaligned access x {SIMD all / no AVX2 / none / byte-order-neutral scalar} x gcc/clang x -O0..-O3, -Os, -Og, with and without -march=native on every file, -DNDEBUG, -funsigned-char; -flto, and the static library as the repository's own Makefile builds it; quick = covering subset of 21) "
                "and each build runs the same seeded workload: single-block SKINNY (all variants, in-between key sizes, both directions), MANTIS (rounds, modes, entry points incl. double swap), tweak histories, "
                "CTR histories (carries, splits, mid-stream rekey, invalid calls) and parallel histories on every back end the build contains; inside each build results are compared with the reference models and across "
                "back ends; per-chunk digests (32 cases) of all outputs and return values are compared with the shipped configuration. distinct = distinct workload cases by output digest (each executed in every build)." % len(variants))
    cases = n(out, 4000, 6000)
    with cf.ThreadPoolExecutor(max_workers=3) as ex:
        exes = dict(zip(variants, ex.map(lambda v: build_driver("drv_xcfg", ["drv_xcfg.c"] + HIST, v), variants)))
    for vname in variants:
        run_sharded(out, exes[vname], ["--prop", "C12", "--mode", "digest"], vname, cases, shards=8, label=vname)
    _digest_compare(out, "C12", "prod", "differs-from-shipped-build")
    out.observed["configurations_built"] = len(variants)
    out.exhaustive = False
    out.assumptions += ["no real 32-bit or big-endian target exists in this sandbox: the alternative source paths are compiled for and run on the 64-bit little-endian host through the RWEATHER_SKINNY_C_VERIF switch hook",
                        "SKINNY_LITTLE_ENDIAN=0 is only combined with SIMD off (as the property's quantifier says)"]


# --------------------------------------------------------------------- C11
VG = ["valgrind", "-q", "--error-exitcode=0"]


@check("C11")
def c11(out):
    out.rule = ("(1) definedness at the API boundary: clang MemorySanitizer build (and the shipped build under valgrind memcheck): caller structs pre-marked undefined, every key-setting function at every legal length, then "
                "return value, rounds, round keys [0..rounds), tweak / k0,k0',k1,tweak,rounds and every output byte are tested with __msan_test_shadow / VALGRIND_GET_VBITS; the CTR and parallel history interpreters assert "
                "the same for every return value, output byte and handle field. (2) differential: the same seeded workload (drv_xcfg) run in separate processes that differ only in stack paint (0x00/0xFF/pattern), "
                "MALLOC_PERTURB_, compiler and optimisation level must give bit-identical digests. distinct = distinct cases by content hash.")
    # (1) definedness
    exe = build_driver("drv_keys", ["drv_keys.c"] + HIST, "msan")
    run_sharded(out, exe, ["--prop", "C11", "--mode", "c11"], "msan", n(out, 8000, 200000), label="msan-keys")
    exe = build_driver("drv_ctr", ["drv_ctr.c"] + HIST, "msan")
    run_sharded(out, exe, ["--prop", "C11", "--mode", "xbe"], "msan", n(out, 1200, 40000), label="msan-ctr")
    exe = build_driver("drv_par", ["drv_par.c"] + HIST, "msan")
    run_sharded(out, exe, ["--prop", "C11", "--mode", "xbe"], "msan", n(out, 1200, 40000), label="msan-par")
    # long-lived CTR objects with calls of 64 KiB..1 MiB under MSan: every output byte of every call is shadow-tested
    exe = build_driver("drv_ctr", ["drv_ctr.c"] + HIST, "msan")
    run_sharded(out, exe, ["--prop", "C11", "--mode", "marathon", "--marathon-ops", "2000", "--marathon-bigfreq", "160", "--case-timeout", "600"], "msan", 9 if out.tier == "quick" else 54, shards=9, label="msan-marathon")
    # allocation failure inside init with the caller's handle marked undefined: the handle fields must come back defined (inert)
    exe = build_driver("drv_life", ["drv_life.c", "allocmon.c"] + HIST, "msan", extra=WRAP)
    run_sharded(out, exe, ["--prop", "C11", "--mode", "c16"], "msan", 108 * (2 if out.tier == "quick" else 10), label="msan-failed-init")
    # parallel-ECB calls of 4096 .. 70001 blocks under MSan with the output buffer pre-marked undefined
    exe = build_driver("drv_par", ["drv_par.c"] + HIST, "msan")
    run_sharded(out, exe, ["--prop", "C11", "--mode", "big", "--case-timeout", "600"], "msan", 36 * 3 if out.tier == "quick" else 36 * 8, shards=12, label="msan-big-parallel")
    exe = build_driver("drv_keys_vg", ["drv_keys.c"] + HIST, "prod", extra=["-DVH_VALGRIND"])
    run_sharded(out, exe, ["--prop", "C11", "--mode", "c11", "--case-timeout", "900"], "prod", n(out, 1600, 40000), label="memcheck-keys", wrapper=VG, timeout=3000)
    if out.tier == "thorough":
        exe = build_driver("drv_ctr_vg", ["drv_ctr.c"] + HIST, "prod", extra=["-DVH_VALGRIND"])
        run_sharded(out, exe, ["--prop", "C11", "--mode", "xbe", "--case-timeout", "900"], "prod", 6000, label="memcheck-ctr", wrapper=VG, timeout=3000)
        exe = build_driver("drv_keys", ["drv_keys.c"] + HIST, "msan+W32")
        run_sharded(out, exe, ["--prop", "C11", "--mode", "c11"], "msan+W32", 40000, label="msan-keys")
        exe = build_driver("drv_keys", ["drv_keys.c"] + HIST, "msan+NEUTRAL")
        run_sharded(out, exe, ["--prop", "C11", "--mode", "c11"], "msan+NEUTRAL", 40000, label="msan-keys")
    # (2) differential across processes
    cases = n(out, 3000, 30000)
    runs = [("prod", "base", [], {}), ("prod", "paint00", ["--paint", "0"], {}), ("prod", "paintFF", ["--paint", "255"], {}), ("prod", "paint-pattern", ["--paint", "-1"], {"MALLOC_PERTURB_": "165"}),
            ("prod", "perturb", [], {"MALLOC_PERTURB_": "90"}), ("clang", "clang", ["--paint", "255"], {}), ("prod+O0", "gcc-O0", ["--paint", "0"], {}), ("prod+O1", "gcc-O1", ["--paint", "255"], {}), ("prod+O2", "gcc-O2", [], {"MALLOC_PERTURB_": "255"})]
    if out.tier == "thorough":
        runs += [("clang+O0", "clang-O0", ["--paint", "255"], {}), ("clang+O1", "clang-O1", [], {}), ("clang+O2", "clang-O2", ["--paint", "0"], {}), ("prod+Os", "gcc-Os", ["--paint", "255"], {})]
    for vname, label, args, env in runs:
        exe = build_driver("drv_xcfg", ["drv_xcfg.c"] + HIST, vname)
        run_sharded(out, exe, ["--prop", "C11", "--mode", "digest"] + args, vname, cases, shards=8, label=label, extra_env=env)
    _digest_compare(out, "C11", "base", "result-depends-on-stack-heap-or-optimisation")
    out.assumptions += ["MSan/memcheck shadow state is trusted; padding bytes and schedule entries beyond 'rounds' are excluded (the library legitimately never writes them)"]


# --------------------------------------------------------------------- C13
@check("C13")
def c13(out):
    out.rule = ("case index -> (init function of six, emulated CPU model of thirteen incl. two where XGETBV is emulated by single-stepping (XCR0=3, XCR0=1) and an SSE2-only K8-class CPU, trapped x4 / real CPUID x1); in each case the init is called 24 times through an assembly trampoline with rcx, rdx, rsi, r8-r11, rbx, rax "
                "set to 0,1,2,3,7,0x100,0xdeadbeef,~0 and random values, handle pre-filled 0x00/0xCC, stack painted; every CPUID executed is trapped (arch_prctl ARCH_SET_CPUID) and logged with its leaf and sub-leaf register; "
                "oracle: selected back end (from the handle) == widest back end compiled in and supported by the served CPUID table + real XCR0, identical on every call, leaf-7 sub-leaf register independent of the "
                "calling context, parallel_size behaves as the selected back end's batch; for CPU/OS models without usable AVX a whole object life cycle is single-stepped (EFLAGS.TF) and no VEX/EVEX-encoded instruction may execute in library code; on the SSE2-only model no SSE3/SSSE3/SSE4/POPCNT-class instruction either (opcode maps 0F38/0F3A etc.); inits on models with OSXSAVE clear are single-stepped and must not execute XGETBV. distinct = distinct (init, model, register context).")
    builds = [("prod", 1, 1, n(out, 1560, 39000))]
    if out.tier == "thorough":
        builds += [("clang", 1, 1, 3600), ("prod+O0", 1, 1, 3600), ("prod+NOAVX2", 1, 0, 1800), ("prod+NOSIMD", 0, 0, 1800), ("clang+O1", 1, 1, 1800), ("prod+O1", 1, 1, 1800)]
    else:
        builds += [("prod+O0", 1, 1, 780), ("clang", 1, 1, 780), ("prod+NOSIMD", 0, 0, 390), ("make", 1, 1, 390)]      # "make": libskinny.a built by src/Makefile itself
    for vname, h128, h256, cases in builds:
        exe = build_driver("drv_cpuid", ["drv_cpuid.c"] + HIST, vname)
        run_sharded(out, exe, ["--has128", str(h128), "--has256", str(h256)], vname, cases)
    out.assumptions += ["CPU models are emulations served through CPUID faulting on one physical CPU; XGETBV is emulated only in the two single-stepped XCR0 models (slow: 6 calls per case)",
                        "expected back end = widest of {generic, vec128 if SSE2, vec256 if max leaf>=7 and leaf7.0 EBX[5] and OSXSAVE and AVX and XCR0[2:1]=11b} that the build compiled in"]


# --------------------------------------------------------------------- C08
def _ct_control(out, exe, env, wrapper, label, expect_abort):
    rr = core.run_driver(list(wrapper) + [exe, "--control", "1"], env=env, timeout=300)
    reports = sum(j.get("reports", 0) for j in rr.records if j.get("type") == "control")
    fired = (rr.rc not in (0, None)) if expect_abort else (reports >= 2)
    out.observed["positive_control_" + label] = {"reports": reports, "exit": rr.rc, "fired": fired}
    if not fired:
        out.inconclusive.append({"reason": "taint monitor positive control did not fire (%s): reports=%d rc=%s" % (label, reports, rr.rc)})
    return fired


def _lackey_trace(exe, scen, cap, secret_path, logpath):
    """Run one scenario under lackey; return (hash of the bracketed trace, number of trace lines) or None."""
    import hashlib
    p = subprocess.run(["valgrind", "--tool=lackey", "--trace-mem=yes", "--log-file=" + logpath, exe, str(scen), str(cap), secret_path],
                       stdout=subprocess.PIPE, stderr=subprocess.PIPE, text=True, timeout=600)
    if p.returncode != 0 or "marker=" not in p.stdout:
        return None
    marker = int(p.stdout.split("marker=")[1].split()[0], 16)
    h = hashlib.sha1(); inside = False; nlines = 0; seen_end = False
    with open(logpath, "r", errors="replace") as f:
        for line in f:
            if line.startswith(" S "):
                try:
                    addr = int(line[3:].split(",")[0], 16)
                except ValueError:
                    addr = -1
                if addr == marker:
                    if not inside:
                        inside = True
                        continue
                    seen_end = True
                    break
            if inside:
                h.update(line.encode()); nlines += 1
    os.unlink(logpath)
    if not seen_end:
        return None
    return h.hexdigest(), nlines


def _trace_equality(out, vname, scenarios):
    """Secondary C08 oracle: bracketed lackey traces must be identical across secret sets."""
    import random
    exe = build_driver("drv_trace", ["drv_trace.c", "lib.c"], vname, common=False)
    rng = random.Random(out.seed * 31337 + 8)
    wd = core.workdir()
    K = 3

    def one(job):
        scen, cap = job
        hashes = []
        for k in range(K):
            sp = os.path.join(wd, "secret-%d-%d-%s.bin" % (scen, cap, vname.replace("+", "_")))   # same path (same argv length) for every secret set
            r2 = random.Random((scen * 131 + cap) * 1000 + k + out.seed)
            with open(sp, "wb") as f:
                f.write(bytes(r2.getrandbits(8) for _ in range(8192)) if k else bytes(8192))
            res = _lackey_trace(exe, scen, cap, sp, sp + ".log")
            os.unlink(sp)
            if res is None:
                return (scen, cap, None)
            hashes.append(res)
        return (scen, cap, hashes)
    # positive control
    ctl = one((999999, 2))
    fired = ctl[2] is not None and len(set(h for h, _ in ctl[2])) > 1
    out.observed["positive_control_trace_" + vname] = {"distinct_traces_for_leaky_code": len(set(h for h, _ in ctl[2])) if ctl[2] else 0, "fired": fired}
    if not fired:
        out.inconclusive.append({"reason": "trace-equality positive control did not show differing traces (%s)" % vname})
        return
    # scenario kind = scen % 3 (single-block / ctr / parallel); back-end cap cycles over generic, vec128, vec256
    jobs = [(rng.randrange(0, 100000) * 3 + (i % 3), (i // 3) % 3) for i in range(scenarios)]
    lines = 0
    for scen, cap, hashes in core.pool().map(one, jobs):
        out.evaluations += 1
        if hashes is None:
            out.inconclusive.append({"reason": "lackey run failed or markers not found", "scenario": scen, "cap": cap})
            continue
        lines += hashes[0][1]
        out.distinct.add(hash((vname, scen, cap)) & 0x7FFFFFFFFFFFFFFF)
        out.counters["trace_scenarios_compared"] = out.counters.get("trace_scenarios_compared", 0) + 1
        out.counters["secret_sets_per_scenario"] = K
        if len(set(h for h, _ in hashes)) != 1:
            out.violation("C08:trace:%s:instruction-or-address-trace-depends-on-secrets:%s" % (vname, ("single-block", "ctr", "parallel")[scen % 3]),
                          detail={"scenario": scen, "backend_cap": cap, "trace_hashes": [h for h, _ in hashes], "trace_lines": [nl for _, nl in hashes]},
                          replay={"driver": "drv_trace", "scenario": scen, "cap": cap, "variant": vname, "seed": out.seed})
    out.counters["trace_lines_compared"] = out.counters.get("trace_lines_compared", 0) + lines
    out.variants.append("%s under valgrind lackey (trace equality)" % vname)


@check("C08")
def c08(out):
    out.rule = ("public-parameter grid enumerated by case index: (a) key-schedule and single-block functions for every legal key length, tweak length 1..B or NULL, Mantis rounds x mode incl. swap_modes; (b) CTR objects per "
                "cipher x back end x key length x tweak length x counter length 0..B/NULL x total 0..200 bytes in 1..4 calls incl. a mid-stream rekey; (c) parallel ECB per cipher x back end x key length x 0..20 blocks; "
                "all key/tweak/counter/data bytes are marked undefined before each call; memcheck (shipped -O3 build, all back ends incl. AVX2) and clang MemorySanitizer report any conditional jump or address "
                "computed from them; reports are attributed to the API call (error-count delta / abort containment). distinct = distinct (function, back end, public parameters) points executed.")
    vgw = ["valgrind", "-q", "--error-limit=no", "--error-exitcode=0", "--num-callers=12"]
    env = core.san_env("prod")
    exe = build_driver("drv_ct_vg", ["drv_ct.c"] + HIST, "prod", extra=["-DVH_VALGRIND"])
    if _ct_control(out, exe, env, vgw, "memcheck", False):
        run_sharded(out, exe, ["--case-timeout", "900"] + (["--aged", "65600"] if out.tier == "thorough" else []), "prod", n(out, 2400, 30000), label="memcheck", wrapper=vgw, timeout=3000)
        out.variants.append("prod (-O3, shipped flags) under valgrind memcheck")
    exe = build_driver("drv_ct", ["drv_ct.c"] + HIST, "msan")
    if _ct_control(out, exe, core.san_env("msan"), [], "msan", True):
        run_sharded(out, exe, [], "msan", n(out, 6000, 120000), label="msan")
        # the alternative scalar source paths (32-bit words, byte-order-neutral) have their own S-box / load-store code
        for vname in ("msan+W32", "msan+NEUTRAL"):
            exe2 = build_driver("drv_ct", ["drv_ct.c"] + HIST, vname)
            run_sharded(out, exe2, [], vname, n(out, 2400, 30000), label=vname)
    _trace_equality(out, "prod", n(out, 36, 600))
    if out.tier == "thorough":
        _trace_equality(out, "clang", 200)
        for vname in ("clang", "prod+W32", "prod+UNAL0", "prod+NEUTRAL", "prod+O0", "clang+W32"):
            exe = build_driver("drv_ct_vg", ["drv_ct.c"] + HIST, vname, extra=["-DVH_VALGRIND"])
            run_sharded(out, exe, ["--case-timeout", "900"], vname, 9000, label="memcheck-" + vname, wrapper=vgw, timeout=3000)
        for vname in ("msan+W32+NEUTRAL", "msan+UNAL0"):
            exe = build_driver("drv_ct", ["drv_ct.c"] + HIST, vname)
            run_sharded(out, exe, [], vname, 30000, label=vname)
    out.assumptions += ["memcheck / MSan definedness propagation is the taint model: a secret that reaches a branch condition or an address on an executed path is reported; paths not executed by the grid are not judged",
                        "microarchitectural timing beyond branches and addresses (e.g. variable-latency instructions) is out of reach; lengths, round counts, modes, pointers and alignment are public",
                        "only build configurations possible on this host"]


# --------------------------------------------------------------------- C18
import re as _re


def _race_reports(stderr, tool):
    """Split sanitizer/helgrind output into reports; return list of (key-suffix, text)."""
    reps = []
    if tool == "tsan":
        for blk in stderr.split("=================="):
            if "WARNING: ThreadSanitizer" not in blk:
                continue
            kind = _re.search(r"WARNING: ThreadSanitizer: ([^(\n]+)", blk).group(1).strip().replace(" ", "-")
            frames = _re.findall(r"#0 ([A-Za-z_0-9]+)", blk)[:2]
            reps.append(("%s:%s" % (kind, "+".join(frames) or "?"), blk.strip()[:3000]))
    else:
        for m in _re.finditer(r"(Possible data race[^\n]*\n(?:==\d+==[^\n]*\n){1,30})", stderr):
            blk = m.group(1)
            frames = _re.findall(r"(?:at|by) 0x[0-9A-F]+: ([A-Za-z_0-9]+)", blk)
            libf = [f for f in frames if f.startswith(("skinny", "mantis", "_skinny", "_mantis"))][:2]
            if libf:
                reps.append(("data-race:" + "+".join(libf), blk[:3000]))
    return reps


def _thr_first_init(out, exe, vname, procs, tool="tsan"):
    """Fresh processes whose very first library calls are made by 16 threads at once."""
    env = core.san_env(vname)
    env["TSAN_OPTIONS"] = "halt_on_error=0:exitcode=0:report_signal_unsafe=0"
    futs = [core.pool().submit(core.run_driver, [exe, "--mode", "first-init", "--seed", str(out.seed * 1000 + i), "--variant", vname, "--threads", "16"], env, 600) for i in range(procs)]
    for f in futs:
        rr = f.result()
        out.absorb(rr, vname + "-first-init")
        for suffix, text in _race_reports(rr.stderr, tool):
            out.violation("C18:%s:%s:first-concurrent-init:%s" % (tool, vname, suffix), detail={"report": text}, replay={"driver": "drv_thr", "mode": "first-init", "variant": vname, "seed": out.seed})
    out.evaluations += procs
    out.distinct_extra += procs


def _thr_run(out, exe, vname, reps, tool, shards=4, wrapper=(), threads=16, timeout=1800):
    env = core.san_env(vname)
    env["TSAN_OPTIONS"] = "halt_on_error=0:exitcode=0:report_signal_unsafe=0:history_size=4"
    futs = []
    for i in range(shards):
        cmd = list(wrapper) + [exe, "--seed", str(out.seed), "--cases", str(reps), "--shard", "%d/%d" % (i, shards), "--variant", vname, "--threads", str(threads),
                               "--distinct-file", os.path.join(core.workdir(), "thr-%s-%s-%d.bin" % (tool, vname.replace("+", "_"), i))]
        futs.append((core.pool().submit(core.run_driver, cmd, env, timeout), cmd[-1]))
    for f, dfile in futs:
        rr = f.result()
        out.absorb(rr, vname)
        out.add_distinct_file(dfile)
        for suffix, text in _race_reports(rr.stderr, tool):
            out.violation("C18:%s:%s:%s" % (tool, vname, suffix), detail={"report": text}, replay={"driver": "drv_thr", "variant": vname, "seed": out.seed, "note": "race reports vary from run to run; re-run the check"})
    out.evaluations += reps
    out.variants.append("%s (%s)" % (vname, tool))


@check("C18")
def c18(out):
    out.rule = ("repetition index -> workload (distinct objects / shared read-only key schedules and parallel-ECB objects / init+cleanup storm) x back-end cap; 16 threads released by a barrier run generated CTR and parallel "
                "histories, reads on shared schedules, or init/use/cleanup loops with random yields and sleeps between calls; oracles: ThreadSanitizer (gcc, thorough: clang; helgrind on the shipped build) must print no report, "
                "and every thread's transcript must equal the transcript of the same work computed sequentially beforehand; additionally fresh processes make their very first library calls (incl. the CPU probe) from 16 threads at once, a lock-free two-stage pipeline hands the output of large (64 KiB..1 MiB) parallel-ECB/CTR calls to a second thread by release/acquire atomics only (no fence, lock or join after the library returns) and the consumer, using its own object on the trailer first, must see the sequential result; and a single-threaded monitor runs parallel-ECB histories with the object's heap state mprotect'ed read-only during every encrypt/decrypt/crypt call (a write faults). Evidence counts threads simultaneously inside library calls and distinct interleaving signatures. "
                "distinct = distinct repetition contents (history hashes / seeds).")
    # positive control: the detector must see a deliberate race
    exe = build_driver("drv_thr", ["drv_thr.c"] + HIST, "tsan", libs=["-pthread"])
    env = core.san_env("tsan"); env["TSAN_OPTIONS"] = "halt_on_error=0:exitcode=0"
    rr = core.run_driver([exe, "--control", "1"], env=env, timeout=120)
    fired = "ThreadSanitizer: data race" in rr.stderr
    out.observed["positive_control_tsan_reported_deliberate_race"] = fired
    if not fired:
        out.inconclusive.append({"reason": "ThreadSanitizer positive control did not report the deliberate race"})
    _thr_run(out, exe, "tsan", n(out, 192, 6000), "tsan")
    _thr_first_init(out, exe, "tsan", n(out, 48, 600))
    # gcc expands small memcpy/memset inline after the TSan pass; with -fno-builtin they stay calls that the TSan runtime intercepts
    exe = build_driver("drv_thr", ["drv_thr.c"] + HIST, "tsan+NOBUILTIN", libs=["-pthread"])
    _thr_run(out, exe, "tsan+NOBUILTIN", n(out, 96, 2000), "tsan")
    if out.tier == "thorough":
        exe = build_driver("drv_thr", ["drv_thr.c"] + HIST, "tsanclang", libs=["-pthread"])
        _thr_run(out, exe, "tsanclang", 3000, "tsan")
        exe = build_driver("drv_thr", ["drv_thr.c"] + HIST, "tsan+W32", libs=["-pthread"])
        _thr_run(out, exe, "tsan+W32", 600, "tsan")
        exe = build_driver("drv_thr", ["drv_thr.c"] + HIST, "prod", libs=["-pthread"])
        _thr_run(out, exe, "prod", 48, "helgrind", shards=8, wrapper=["valgrind", "--tool=helgrind", "-q", "--history-level=approx"], threads=8, timeout=3000)
    else:
        exe = build_driver("drv_thr", ["drv_thr.c"] + HIST, "prod", libs=["-pthread"])
        _thr_run(out, exe, "prod", n(out, 600, 600), "plain", shards=4)
        _thr_first_init(out, exe, "prod", n(out, 48, 48), tool="plain")
    # lock-free pipeline: outputs of large calls handed to a second thread by release/acquire atomics only (no fence, lock or join in between)
    run_sharded(out, exe, ["--mode", "pipeline"], "prod", n(out, 36, 1800), shards=6, label="lock-free-pipeline")
    if out.tier == "thorough":
        exe_n = build_driver("drv_thr", ["drv_thr.c"] + HIST, "prod+NATIVE", libs=["-pthread"])
        run_sharded(out, exe_n, ["--mode", "pipeline"], "prod+NATIVE", 600, shards=6, label="lock-free-pipeline")
    # read-only monitor: the heap state of parallel-ECB objects is PROT_READ while encrypt/decrypt/crypt run on it
    exe = build_driver("drv_life", ["drv_life.c", "allocmon.c"] + HIST, "prod", extra=WRAP)
    run_sharded(out, exe, ["--prop", "C18", "--mode", "c15"], "prod", n(out, 1200, 40000), label="read-only-object-state")
    if out.maxima.get("max_threads_simultaneously_inside_library_calls", 0) < 2:
        out.inconclusive.append({"reason": "threads never overlapped inside library calls"})
    out.assumptions += ["interleavings are sampled, not enumerated; TSan's happens-before analysis reports a conflicting unsynchronised access pair whenever the two accesses are not ordered, without needing the exact racy timing",
                        "the back-end cap hook is written only by the main thread before the threads of a repetition are created"]


# --------------------------------------------------------------------- C19
@check("C19")
def c19(out):
    ard = os.path.join(core.REPO, "arduino", "libraries", "Skinny")
    out.rule = ("Arduino sources (portable C++ path) compiled for the host from the working tree; case index -> class of 11 (4 of 5 cases) or CTR<T> over the five Skinny-128 classes (1 of 5): random sequences of 2..40 operations over "
                "setKey (valid and wrong lengths), setTweak (bytes / NULL / wrong length), swapModes (Mantis8), encryptBlock, decryptBlock (in place 1/3), clear+setKey; every block compared with the C library keyed from scratch "
                "with (key, latest tweak, mode) and with the reference model. CTR<T>: setKey, setIV (carries/wrap), encrypt/decrypt with random cuts incl. zero-length, in place or not, compared with skinny128_ctr_*. "
                "distinct = distinct (class, key, tweak sequence) / (class, key, iv, cuts).")
    cxx = [os.path.join(ard, f) for f in sorted(os.listdir(ard)) if f.endswith(".cpp")]
    v = [("prod", n(out, 24000, 1200000)), ("asan", n(out, 6000, 150000)), ("prod+Os", n(out, 3000, 60000)), ("prod+O0", n(out, 3000, 60000)), ("prod+UCHAR+Os", n(out, 3000, 60000))]     # plain char is unsigned on the ARM/ESP boards that run the portable path; -Os is the Arduino default; without inlining, same-named inline helpers of two files collide
    if out.tier == "thorough":
        v += [("clang", 200000), ("msan", 40000), ("prod+O3", 100000), ("asanclang", 40000), ("clang+Os", 60000), ("prod+Og", 60000)]
    for vname, cases in v:
        exe = core.build_cxx_driver("drv_ard", [os.path.join(core.HARNESS, "drv_ard.cpp")] + cxx, [], vname, incs=[ard])
        run_sharded(out, exe, [], vname, cases)
    out.observed["arduino_sources_compiled"] = [os.path.basename(f) for f in cxx]
    out.assumptions += ["only the portable (non-AVR) C++ path can run on the host; the AVR inline-assembly path is out of reach (the property says so)",
                        "the C library is tied to the specification by C01-C05; the reference models are compared directly as well"]


# --------------------------------------------------------------------- C20
@check("C20")
def c20(out):
    from . import c20 as m
    out.rule = ("the three example tools are built from the working tree (shipped flags and ASan/UBSan) and run on generated files: lengths 0,1,B-1,B,B+1,1023..1025,2047..2049,3000 and random up to 64 KiB, both block sizes, "
                "every legal key length for the tool, counter/tweak absent or of length 1..B with carry chains (skinny-tweak's per-block increment crosses bytes and the 1024-byte chunk), hex spelled in five styles; "
                "output must have the right length and equal the library API driven directly by an oracle program (whole file, one call) which must equal the reference model; a second run (-d for tweak/ecb) must restore the input; "
                "31 classes of invalid invocations per tool/block size must exit non-zero, not crash, and leave no output file. distinct = distinct (tool, block, length, key, counter/tweak, direction) or invalid argument vectors.")
    m.run(out)
    out.assumptions += ["tools run as subprocesses on temporary files in a private directory", "oracle program uses the library from the same build; the reference model is compared as well"]
