#!/usr/bin/env python3
"""Rewrites DESIGN.md sections 9.6 and 9.7 from seeded/*/meta.json (tables) plus the fixed narrative below."""
import subprocess, json, glob, os
ROOT = os.path.dirname(os.path.dirname(os.path.abspath(__file__)))
t = subprocess.run(['python3', os.path.join(ROOT, 'tools', 'seeded_table.py')], capture_output=True, text=True).stdout
nseed = len(glob.glob(os.path.join(ROOT, 'seeded', '*', 'meta.json')))
eq = []
for f in sorted(glob.glob(os.path.join(ROOT, 'seeded', 'equivalent', '*', 'meta.json'))):
    m = json.load(open(f)); rd = os.path.join(os.path.dirname(f), 'README.md'); what = ''
    if os.path.exists(rd):
        txt = [l.strip() for l in open(rd) if l.strip() and not l.startswith('#')]
        what = (txt[0] if txt else '')[:170].replace('|', '/')
    eq.append("| %s | %s | %d checks run, %s |" % (m['name'], what, len(m['checks']), 'all silent' if m['all_silent'] else 'ALARM: ' + ', '.join(p for p, c in m['checks'].items() if not c['silent'])))
d = open(os.path.join(ROOT, 'DESIGN.md')).read()
d = d[:d.index('\n### 9.6 Seeded changes')]
d += '''
### 9.6 Seeded changes (mutation trials) and which checks catch them

Seven rounds of changes were written by fresh sub-agents that saw only the text of
one property and a private worktree of `/repo` (nothing from `/verif`):
round 1 (A, B for all twenty properties) asked for realistic slips needing
something specific to manifest; round 2 (C, D for all twenty) told the agent,
in generic terms, that a capable runtime checker of this technique family
already exists (reference models, random call sequences with sizes up to ~3000
bytes on every back end and several builds, sanitizers, valgrind taint,
allocator interposition with fault injection, emulated CPUID, TSan) and asked
for changes such a checker is *likely to miss* (rare value patterns, carries
out of bit 31/32/63, calls of 64 KiB..4 GiB, thousands of calls on one object,
rarely combined options, pointer relations, untrappable instructions, ...);
round 3 (E, F for all twenty) went back to round 1's brief but listed the first
lines of the four earlier changes for the property and required different
mechanisms, files, ciphers and code paths (it produced two cooperating edits,
alternative-configuration-only code, compiler-specific arms, one-slot caches,
...); round 4 (G, H) combined round 2's brief, the list of the six earlier
changes and further trigger kinds (buffer placement relative to pages and
alignment classes, compile-time arms, declarations in `include/`, order of use
of different object kinds, state surviving cleanup, values special to one
variant); rounds 5 (I, J), 6 (K, L) and 7 (M, N, twelve properties) are described with their results below.
Each change was confirmed with `tools/confirm_seeded.py` in a scratch worktree
(clean tree: 30 tests pass, demonstration passes; changed tree: 30 tests pass,
demonstration fails) and the checks were run with `VERIF_REPO=<patched
worktree>` (quick tier; C07-C and C05-J need the thorough tier).  Everything is kept under
`seeded/<id>-<X>/` (`patch.diff`, the demonstration, `README.md`, `meta.json`
with what was run and which violation keys fired).  **All but nine are caught** (%d kept; the nine are judged out of scope or out of reach, see rounds 6 and 7) by
the listed checks; about one in eight by the check of the property they
really violate rather than the one the agent was given (e.g. C01-C and C07-D are
data races -> C18, C02-C needs `swap_modes` in a W32+NEUTRAL build -> C03/C12,
C04-D/C04-G/C12-H are mid-stream rekey divergences -> C06, C03-H -> C07, C14-G
-> C16, C14-H -> C04); the table lists the checks that fired.  The ones first missed, and what was changed because
of them, are listed below the table.

''' % nseed + t + '''
Checks strengthened because a seeded change was first missed:

* **C01-B -> C03**: the round-trip check had no byte-order-neutral build in its
  quick tier (`prod+NEUTRAL`, `prod+W32+UNAL0`, later `prod+W32+NEUTRAL` added;
  C01/C02/C05/C06/C07/C09 also got alternative-path builds in quick).
* **C10-B / C14-B / C04-C -> C10, C04**: a rejected `set_tweaked_key` that zeroes
  only the stored *tweak* leaves outputs right until the next `set_tweak`.  The
  C10 reject oracle now pre-loads a non-zero tweak, compares the stored tweak
  field, and applies a later tweak change to the object and to a twin that never
  saw the rejected call (single-block and CTR entry points); C04 histories now
  contain rejected `set_tweaked_key` / `set_tweak` calls that the stateless
  model ignores.
* **C08-B -> C08**: the taint grid only replaced the *public* all-zero tweak.
  It now performs second and third tweak changes (replacing a secret tweak),
  repeated counter sets and mid-stream tweak changes on every object kind.
* **C13-A / C18-A -> C18**: a probe cache is written only by the first call of a
  process, and the driver's own start-up probe had already warmed it.  C18 now
  also runs fresh processes whose very first library calls come from 16 threads
  at once (TSan + cross-thread and sequential transcript equality).
* **C20-B / C10-D -> C20, C10**: option-order dependence.  Valid invocations now
  shuffle the option order (and omit the default `-b128` at times); invalid
  invocations are generated in every order of the option groups, including
  values legal for 128-bit blocks but not for 64-bit ones; C10 sweeps every key
  length through the three tools with `-k` before and after `-b`.
* **C01-D, C02-D -> C01..C04 (and C18)**: a key schedule with a hidden pointer
  into itself, and a `const` schedule written during `crypt_tweaked`.  Half of
  the single-block calls now run on a **relocated, `PROT_READ` copy** of the
  schedule while the original is scrambled: plain-data copyability and
  const-correctness are monitored by the MMU.  C18 additionally mprotects the
  heap state of parallel-ECB objects read-only during every
  encrypt/decrypt/crypt (`drv_life --prop C18`).
* **C03-C, C09-C, C09-D, C19-D, C07-C, C08-C, C08-D, C11-C, C11-D, C17-C, C17-D,
  C18-C, C18-D**: all need one request of 64 KiB, 512 KiB, 1 MiB, 4 MiB or 4 GiB
  (bulk fast paths with their own scratch buffers, 16-bit loop counters,
  `unsigned` byte counts).  Added: "marathon" CTR objects (70 000 calls,
  hundreds of rekeys, calls of 64 KiB..1 MiB, half of them right at a counter
  set, checked incrementally against the model; the same under MSan with the
  output buffer marked undefined), parallel calls of 4 096..1 048 577 blocks
  (also under MSan), round trips of 4..16 MiB, exact-extent guarded calls of
  64..300 KiB (in place, after a partial call, stream position checked
  afterwards), 1..3 MiB Arduino CTR calls, 64 KiB..590 KiB requests in the taint
  grid with 64-byte aligned buffers, bulk usage in the wipe monitor (growing
  64..300 KiB requests, then 2 100 small ones, every intermediate `free()` is
  scanned), 64..135 KiB requests in the thread workloads (own objects and the
  shared parallel-ECB objects), and (thorough) calls of 4 GiB + 4 KiB on a
  257-fold aliased 16 MiB mapping (`drv_huge`).
* **C10-C -> C10, C14**: lengths that wrap into the legal range when converted to
  bits/words modulo 2^32 (`vh_wrap_len`) are now part of every "huge length"
  class.
* **C15-C -> C15, C14**: calls on dead objects now also use empty requests and
  NULL buffers (the call must fail before looking at them).
* **C15-D -> C15**: cleanup of a zeroed / already cleaned-up object is run on a
  `PROT_READ` copy of the handle ("does nothing" means no store either).  The
  behaviour-preserving refactors below (one of which restructures cleanup) stay
  silent under this monitor.
* **C13-C, C13-D -> C13**: a wrong XCR0 mask, and AVX-encoded instructions
  reaching the generic/128-bit paths through a helper compiled with `-mavx2`.
  DESIGN section 3 said XGETBV cannot be trapped; it can be *emulated* by
  single-stepping (EFLAGS.TF): two new CPU models (XCR0 = 3, XCR0 = 1) run the
  init functions under a SIGTRAP handler that answers XGETBV, and for every
  CPU/OS model without usable AVX a whole object life cycle is single-stepped
  and any VEX/EVEX-encoded instruction executed by code of the executable
  (libc excluded) is a violation.  Single-stepping costs ~3 us per instruction
  and is limited to the first sweeps of a run.

* **C08-E -> C08**: a lookup-table S-box that exists only on the 32-bit-word
  source path.  The C08 quick tier ran the taint grid on the shipped path only;
  it now also runs it under MSan on `msan+W32` and `msan+NEUTRAL` (thorough:
  memcheck on those builds too).
* **C11-E / C14-E -> C11, C14** (both first caught only by the C16 fault
  enumeration): a failed init that leaves handle fields unassigned, and two
  cooperating edits that let a later call dereference the NULL context.  C11 now
  marks the caller's handle undefined before every fault-injected init and tests
  the definedness of the return value and of the handle afterwards (MSan and
  memcheck); C14 now runs the failed-init battery itself (allocation faults
  through the allocator monitor, every later call must return 0 without
  faulting).
* **C12-F -> C09**: a Clang-only attribute slip (aligned SIMD stores).  C12 caught
  it through its clang configurations; C09 now also runs its misaligned
  guard-buffer sweep on the `clang` build in the quick tier.
* **C13-F -> C13**: init leaving the vtable unassigned on CPU models without SIMD
  made the *driver* dereference garbage.  The handle's vtable is now first
  checked to lie inside the executable's read-only data
  (`handle-vtable-is-not-a-library-table-after-init`) before anything is read
  through it.
* **C15-F -> C15**: leaks in the init/cleanup storm loop were attributed to the
  wrong object; the loop now compares against the live-block count at its start.
* **C18-E -> C18**: a function-local `static` scratch buffer in the short-key
  path of `skinny64_set_key`.  The thread workloads reached it only through CTR
  histories (caught in 1 of 3 runs) and gcc's TSan does not see the inlined
  `memcpy`.  Added a fourth workload ("key-setup storm": 16 threads x 600
  back-to-back key/tweak set-ups of every legal length on private schedules,
  each followed by block operations) and a `tsan+NOBUILTIN` build
  (`-fno-builtin`, so `memcpy`/`memset` stay calls that the TSan runtime
  intercepts); now 1 500+ differing transcripts and TSan reports in every run.
* **Round 4 (G, H)** - first missed and what was added:
  * *C01-G, C01-H, C02-G, C02-H, C05-H, C12-G, C16-G (build-configuration arms)*: code that only exists under
    `__OPTIMIZE_SIZE__`, `__SSSE3__`, `NDEBUG`, or in the 32-bit-word arm.  New variant modifiers `+Os`, `+Og`,
    `+NATIVE` (`-march=native` on every file), `+NDEBUG`, `+UCHAR` (`-funsigned-char`); C01/C02 quick now include
    `prod+Os+W32`, `prod+NATIVE+NDEBUG+UCHAR`, `clang+Os+NATIVE`; C12 quick has 19 configurations (thorough ~230);
    C05 quick adds `prod+W32` and `prod+NEUTRAL`; C16 repeats its enumeration on `prod+W32`, `clang+Os+NEUTRAL`,
    `prod+UNAL0+NOAVX2`.  C01-H also exposed that short C01 runs saw only zero keys: the structured block is now
    walked in a scrambled (bijective) order.
  * *C04-G, C05-H, C09-H, C06-H (word-level counter arithmetic)*: carries/borrows computed on 32/64-bit words go wrong
    where a word crosses `0x7F..FF/0x80..00` or wraps while the bytes above are not all-ones.  New counter class
    `vh_fill_msb_boundary` (low 1/2/4/8/16-byte word within 12 of its top-bit or wrap boundary, upper bytes random /
    zero / ones) in every counter generator: CTR histories (random and structured), marathon objects, C09 placements,
    Arduino IVs, tool counters.
  * *C05-G, C10-G (rejected call disturbs the stream)*: C05/C04 model histories now contain invalid calls (the model
    ignores them, the judged stream continues); C10 checks that a rejected key call issued in the middle of a
    block/batch leaves the stream identical to a twin object's.
  * *C07-G*: Mantis parallel histories now alias the tweak array with the input buffer and (out of place) with the
    output buffer; expectation unchanged (tweak i is consumed before block i is written, as the block-by-block
    definition implies).
  * *C08-G*: large taint requests are now at least 64 KiB (and 512 KiB) for every block size, not 4200 blocks.
  * *C09-G*: buffers whose addresses differ by an exact multiple of 4 GiB (`MAP_FIXED_NOREPLACE`), output pre-filled
    with other data: a pointer difference truncated to 32 bits looks like "in place".
  * *C10-H, C20-H, C20-G*: command lines with an option given twice (last one wins, or the tool may refuse) in C20 and
    in the C10 tool sweep; input files of 1 MiB, 1 MiB+1 and several MiB for every tool.
  * *C11-G*: `mantis_set_key` with mode values other than the two named ones: if it reports success the schedule must be
    fully defined.
  * *C13-G, C13-H*: new CPU model "SSE2-only (K8 class)"; while single-stepping, instructions of opcode maps 0F38/0F3A,
    POPCNT and the SSE3 opcodes executed by library code are violations on that model; inits on models with OSXSAVE
    clear are single-stepped and must not execute XGETBV.
  * *C15-G*: allocator monitor mode that only guarantees 8-byte alignment (blocks at 8/24 mod 32) with fill-pattern
    check of the slack between block end and guard page (`wrote-beyond-the-allocated-block`); 1 case in 4 (C15/C17)
    and every second C16 sweep.
  * *C16-H*: zero-length encrypt/decrypt and NULL counter calls in the failed-init battery.
  * *C17-G, C17-H*: C17 is repeated in a process where `mlock`/`mlock2`/`mlockall` fail (seccomp filter,
    `RLIMIT_MEMLOCK=0`), and with 220 objects of all kinds alive at once.
  * *C18-G, C18-H*: fifth workload "persistent workers": the same 16 threads live through six phases between which the
    main thread re-keys or re-creates the shared objects (per-thread caches keyed by address show up as stale-key
    output); process-wide state (all signal dispositions, signal mask, x87/MXCSR control) is snapshotted before and
    after every repetition and must be unchanged.
  * *C19-G, C12-H*: tweak set to its current value again (C04 block and CTR histories, Arduino sequences).
  Caught at once in round 4: C03-G, C03-H (by C07), C04-H, C06-G, C06-H, C07-H, C08-H, C11-H, C12-H (by C06), C14-G (by
  C16), C14-H (by C04), C15-H, C19-H.
* **Round 5 (I, J)** - the brief listed all eight earlier changes per property, said which monitor families now exist, and
  asked for legal-but-rare parameter values, unusual call orders, values special to one variant, two-site changes, and
  tool/Arduino specifics.  First missed and what was added:
  * *C07-I*: Mantis tweak arrays whose tweaks agree in most bytes (big/little-endian block numbers in a 1..4-byte window,
    one tweak for all blocks) - structured tweak arrays in the parallel histories.
  * *C03-I, C04-I*: "this key is already loaded" shortcuts - histories now re-use keys the object had before (through either
    key function, with length / rounds / mode drawn afresh) and keys *related* to earlier ones; C03 reaches the Mantis
    inverse by re-keying the same key for the other mode in 1 case of 3.
  * *C02-J, C18-I*: comparisons that look at the wrong half or the wrong length - `vh_related()` builds values whose 1/2/4-byte
    segments are copies of another value's segments (halves repeated / swapped, one bit apart); used for the stored vs
    per-call Mantis tweak (both directions), successive tweaks and successive keys.
  * *C04-J*: a rewind computed from a 16-bit block count - C06 "long stream" cases: 0.5..1.3 MiB generated since the last
    counter set, then key/tweak change in mid-batch, hashes compared across back ends.
  * *C05-I*: `set_counter` with the counter the stream has already reached (next block / next 4- or 8-block batch).
  * *C05-J*: position kept in 32 bits - needs > 4 GiB on one object: caught by the thorough tier (`drv_huge`), not by quick.
  * *C01-I*: a fast path taken only for schedules at 4 mod 8 - relocated read-only schedule copies are now aligned only as
    their type requires and walk through every residue (`vh_ro_copy_al`).
  * *C14-I*: a refused request that has already written output - refused calls must leave the output buffer as it was
    (history interpreters), plus ragged requests above 64 KiB (separate and in place).
  * *C13-J*: CPU models were all made by masking the host's bits - added "leaf 7 reports only sub-leaf 0" and "other vendor
    string, larger maximum leaf".
  * *C12-I, C10-J*: C10 now also runs on `prod+W32` and `clang+W32+NEUTRAL`; the C10 tool sweep spells keys in all five
    accepted styles.
  * *C16-I*: a one-off path in the very first init of a process - "cold" fault injection: one freshly forked process per
    case, the faulted init is the first library call the process ever makes (`vh_fork_each_case`).
  * *C17-J*: contexts obtained with `mmap` and released with `munmap` never reach `free()` - the allocator monitor now wraps
    `mmap`/`mmap64`/`munmap` too (logged, can be made to fail, scanned with `process_vm_readv` when unmapped, counted for
    the leak check).
  * *C19-I, C19-J*: more refused-length classes for the Arduino classes (0, NULL with a wrong length, every Mantis length
    other than 8, lengths that differ only in bits 8+ or 16+).
  * *C20-I*: inputs fed through a named pipe in irregular pieces (short reads in mid-stream).
  Caught at once in round 5: C01-J, C02-I, C03-J (by C10/C14), C06-I, C06-J, C07-J, C08-I, C08-J, C09-I, C09-J (by C01/C03),
  C10-I, C11-I, C11-J, C12-J, C13-I, C14-J, C15-I, C15-J (by C16), C16-J, C17-I, C18-J, C20-J.
* **Round 6 (K, L)** - the brief described every monitor family above (generically) and asked for defects of a different nature:
  exact call counts, interactions between objects, public-parameter edge values, one-variant-only code, object copying, use
  before `main`.  First missed and what was added:
  * *C03-K, C04-L, C06-K, C07-K (8- and 16-bit generation counters)*: "change-count" histories in C06 - use, then exactly N key /
    tweaked-key / tweak changes in a row for N in {1, 2, 255..257, 511..513, 65535..65537, 131072}, then use again; the result must
    equal a fresh object that only saw the last value (CTR and parallel objects, every back end).
  * *C03-L, C12-K*: single parallel requests of 32 MiB (8-byte blocks) / 64 MiB in C07 quick; 4 GiB requests stay in the thorough tier.
  * *C04-K*: state remembered between calls on *different* objects - C04 histories with 3..5 tweakable schedules of different key
    sizes side by side drawing tweaks from one small pool.
  * *C07-L, C11-K, C14-L*: integer arguments passed through narrower types - Mantis mode values other than the two constants must
    be handled alike by the parallel and the single-block key functions; round counts whose low 8/16/24 bits are legal
    (261, 0x10006, 0x20007 ...) in C10/C14; the Mantis (size, rounds) grid of C10 is now walked in scrambled order.
  * *C08-L*: code that changes strategy on the 65536th tweak change - the taint grid ages some schedules and CTR objects with
    65 600 public tweak changes (300 under memcheck in the quick tier, 65 600 in thorough) before the secret one arrives.
  * *C10-K*: accepted in-between key lengths are compared with the zero-padded key in mid-stream as well (twin objects).
  * *C13-K, C13-L*: two more CPU models with other vendor strings (Hygon, Zhaoxin); the 256-bit back end is now also identified by
    behaviour (single-stepped use must execute VEX-encoded instructions), which needs no internal symbol - a weak reference that
    keeps the AVX2 object out of a static link no longer hides behind "cannot identify the back end".
  * *C15-K, C17-K*: control blocks are moved to another address now and then (C15/C17 histories): a plain struct of pointers may be
    stored in arrays, sorted, returned by value.
  * *C19-K, C19-L, C01-K, C01-L*: objects used from a constructor that runs before `main` (C library: `constructor(101)`; Arduino
    classes: file-scope object linked before the library), copies of Arduino objects that die before the original is used again
    (only for copyable classes), Arduino sources compiled at the variant's own `-O` level with `-Os` and `-O0` in the quick tier.
  * *C20-K, C20-L*: `-b` values with trailing garbage or that wrap to 64/128; input and output names that differ only in case.
  Judged out of scope (kept with a note in `meta.json`, no monitor added): C08-K (timing of the Arduino port: C08 is anchored in
  `src/`), C09-K (needs the same memory mapped at two addresses; writing keystream to the output first and xoring the input in is
  a legitimate implementation), C15-L (a tool's error path before exit).
  Caught at once in round 6: C02-K, C02-L (by C18), C05-K, C05-L, C06-L, C09-L (by C04), C10-L (by C04/C06), C11-L (by C19),
  C12-L (by C18), C14-K, C15-K, C16-K, C16-L, C17-L, C18-K, C18-L.
* **Round 7 (M, N; twelve properties)** - the brief listed every monitor family again and asked what a maintainer might do in the
  coming years that none of them would notice.  First missed and what was added: LTO builds (`+LTO`: a wipe moved behind a
  function in another file is elided again, C17-N); the Arduino sources now get the variant's extra flags, with
  `prod+UCHAR+Os` in C19 quick (C19-M); a library built by the repository's own `src/Makefile` as variant `make` in C12/C13;
  70 000 CTR objects alive at once on the real allocator with a heap-balance check, and the C15 histories in a process where
  `mlock` fails (C15-M, C15-N); outputs whose path already holds a longer file (C20-M); tweaks that are a shorter prefix of
  the previous one (C05-N); objects keyed before `fork()` and used in the child (C07-N); buffers k x 4 GiB apart plus or minus
  a small distance (C09-M); a memcheck sample with NOACCESS slack in the C09 quick tier, because ASan cannot poison the bytes in
  front of a misaligned buffer inside its 8-byte granule (C18-M); counters equal to the stream position except for one high
  bit (C06-M).  Caught at once: C05-M, C06-N (by C13), C07-M (by C18), C09-N, C13-N, C14-M, C17-M, C20-N.
  Judged out of scope or out of reach (notes in `meta.json`): C04-M, C04-N (tweak pointer into the object's own member), C13-M
  (new opt-in Makefile target), C14-N (lengths >= 2^32 after widening the prototypes), C18-N (missing store fence, no C-level
  race), C19-N (threads in the Arduino port).

### 9.7 Behaviour-preserving changes (false-alarm trials)

Sub-agents given all twenty statements produced three rounds of eight refactors
that keep every property (E1..E8, F1..F8, G1..G8, plus each round's eight
combined: ALL, FALL, GALL).  The second round was asked for the kinds of change the later monitors
could wrongly flag: `posix_memalign` allocation, word-wise counter arithmetic,
correct bulk paths, restructured CPU detection, Mantis parallel batches staged
through a local buffer (with aliased tweak arrays), zero-length early-outs after
validation plus `assert()`s and `__OPTIMIZE_SIZE__` loops, new stdio buffering
in the tools, and a restructured Arduino CTR.  The third round targeted the
monitors added in rounds 4-7: contexts obtained with `mmap` (best-effort `mlock`,
wiped, `munmap`), a CPU probe that also reads the vendor string and leaf-7
layout, generated `static const` tables, tools on `open/read/write` with
`O_TRUNC` and a strict `-b` parser, safely copyable Arduino classes, Mantis mode
and rounds narrowed after validation, per-object caches with a dirty flag, and a
wipe helper in its own file that survives `-flto`.  One of them (G1: `mmap` with
a fall-back to `calloc`) exposed a check that demanded more than C16 states; the
check was corrected (section 9.4) and G1 is silent since.  `tools/run_equiv.py` applies each
to a scratch worktree and runs every check (quick tier): all must exit 0.
Results are kept under `seeded/equivalent/<name>/`.

| change | what it does | result |
|---|---|---|
''' + '\n'.join(eq) + '''

This is the evidence that the behavioural (not structural) oracles hold up:
a different generic `parallel_size`, a `memset`+barrier wipe, re-encoded and
reordered private context fields, a different aligned-allocation strategy, an
algebraically different S-box, scratch writes into unused schedule entries,
reordered handle initialisation / cleanup, a rewritten option parser, and the
second round listed above raise no alarm.

### 9.8 What the workloads execute (line coverage, diagnostic)

`tools/coverage.py` (not a registered check) re-runs the checks with
`VERIF_COV` set: every gcc build without sanitizer is compiled with gcov
instrumentation at -O0, forked children dump their counters, and the line
counts of all builds are merged per source file.  The report of the quick tier
is kept in `coverage/quick-tier-lines.txt`: 4761 of 4837 instrumented lines of
`src/`, `examples/` and `arduino/libraries/Skinny/` are executed (98.4 %%).  The
rest: the short-TK1 loop of `skinny128/64_set_tk1` (dead: TK1 always gets a whole
block), the defensive `if (!ctx) return 0` of the back-end functions
(unreachable since a failed init clears the vtable), the SIMD stubs that are
compiled only when the extension is absent (never selected), `secure_compare`
of the Arduino port (not part of a property), and the tools' "cannot open
output file" branch.  Getters and `CTR::setCounterSize` of the Arduino port were
found unexecuted this way and added to the C19 sequences.  Line coverage says
nothing about values, states or interleavings; it is used only to find code no
workload reaches.
'''
open(os.path.join(ROOT, 'DESIGN.md'), 'w').write(d)
print("seeds:", nseed, "equivalent:", len(eq))
