#!/usr/bin/env python3
"""Rewrites DESIGN.md sections 9.6 and 9.7 from seeded/*/meta.json (tables) plus the fixed narrative below."""
import subprocess, json, glob, os
ROOT = os.path.dirname(os.path.dirname(os.path.abspath(__file__)))
t = subprocess.run(['python3', os.path.join(ROOT, 'tools', 'seeded_table.py')], capture_output=True, text=True).stdout
nseed = len(glob.glob(os.path.join(ROOT, 'seeded', '*', 'meta.json')))
eq = []
for f in sorted(glob.glob(os.path.join(ROOT, 'seeded', 'equivalent', '*', 'meta.json'))):
    m = json.load(open(f)); rd = os.path.join(os.path.dirname(f), 'README.md'); what = ''
    if os.path.exists(rd):
        txt = [l.strip() for l in open(rd) if l.strip() and not l.startswith('#')]
        what = (txt[0] if txt else '')[:170].replace('|', '/')
    eq.append("| %s | %s | %d checks run, %s |" % (m['name'], what, len(m['checks']), 'all silent' if m['all_silent'] else 'ALARM: ' + ', '.join(p for p, c in m['checks'].items() if not c['silent'])))
d = open(os.path.join(ROOT, 'DESIGN.md')).read()
d = d[:d.index('\n### 9.6 Seeded changes')]
d += '''
### 9.6 Seeded changes (mutation trials) and which checks catch them

Four rounds of changes were written by fresh sub-agents that saw only the text of
one property and a private worktree of `/repo` (nothing from `/verif`):
round 1 (A, B for all twenty properties) asked for realistic slips needing
something specific to manifest; round 2 (C, D for all twenty) told the agent,
in generic terms, that a capable runtime checker of this technique family
already exists (reference models, random call sequences with sizes up to ~3000
bytes on every back end and several builds, sanitizers, valgrind taint,
allocator interposition with fault injection, emulated CPUID, TSan) and asked
for changes such a checker is *likely to miss* (rare value patterns, carries
out of bit 31/32/63, calls of 64 KiB..4 GiB, thousands of calls on one object,
rarely combined options, pointer relations, untrappable instructions, ...);
round 3 (E, F for all twenty) went back to round 1's brief but listed the first
lines of the four earlier changes for the property and required different
mechanisms, files, ciphers and code paths (it produced two cooperating edits,
alternative-configuration-only code, compiler-specific arms, one-slot caches,
...); round 4 (G, H) combined round 2's brief, the list of the six earlier
changes and further trigger kinds (buffer placement relative to pages and
alignment classes, compile-time arms, declarations in `include/`, order of use
of different object kinds, state surviving cleanup, values special to one
variant).
Each change was confirmed with `tools/confirm_seeded.py` in a scratch worktree
(clean tree: 30 tests pass, demonstration passes; changed tree: 30 tests pass,
demonstration fails) and the checks were run with `VERIF_REPO=<patched
worktree>` (quick tier; C07-C needs the thorough tier).  Everything is kept under
`seeded/<id>-<X>/` (`patch.diff`, the demonstration, `README.md`, `meta.json`
with what was run and which violation keys fired).  **All %d are caught** by
the listed checks (four by the check of the property they really violate rather
than the one the agent was given: C01-C and C07-D are data races -> C18, C02-C
needs `swap_modes` in a W32+NEUTRAL build -> C03/C12, C04-D is a mid-stream
rekey divergence -> C06).  The ones first missed, and what was changed because
of them, are listed below the table.

''' % nseed + t + '''
Checks strengthened because a seeded change was first missed:

* **C01-B -> C03**: the round-trip check had no byte-order-neutral build in its
  quick tier (`prod+NEUTRAL`, `prod+W32+UNAL0`, later `prod+W32+NEUTRAL` added;
  C01/C02/C05/C06/C07/C09 also got alternative-path builds in quick).
* **C10-B / C14-B / C04-C -> C10, C04**: a rejected `set_tweaked_key` that zeroes
  only the stored *tweak* leaves outputs right until the next `set_tweak`.  The
  C10 reject oracle now pre-loads a non-zero tweak, compares the stored tweak
  field, and applies a later tweak change to the object and to a twin that never
  saw the rejected call (single-block and CTR entry points); C04 histories now
  contain rejected `set_tweaked_key` / `set_tweak` calls that the stateless
  model ignores.
* **C08-B -> C08**: the taint grid only replaced the *public* all-zero tweak.
  It now performs second and third tweak changes (replacing a secret tweak),
  repeated counter sets and mid-stream tweak changes on every object kind.
* **C13-A / C18-A -> C18**: a probe cache is written only by the first call of a
  process, and the driver's own start-up probe had already warmed it.  C18 now
  also runs fresh processes whose very first library calls come from 16 threads
  at once (TSan + cross-thread and sequential transcript equality).
* **C20-B / C10-D -> C20, C10**: option-order dependence.  Valid invocations now
  shuffle the option order (and omit the default `-b128` at times); invalid
  invocations are generated in every order of the option groups, including
  values legal for 128-bit blocks but not for 64-bit ones; C10 sweeps every key
  length through the three tools with `-k` before and after `-b`.
* **C01-D, C02-D -> C01..C04 (and C18)**: a key schedule with a hidden pointer
  into itself, and a `const` schedule written during `crypt_tweaked`.  Half of
  the single-block calls now run on a **relocated, `PROT_READ` copy** of the
  schedule while the original is scrambled: plain-data copyability and
  const-correctness are monitored by the MMU.  C18 additionally mprotects the
  heap state of parallel-ECB objects read-only during every
  encrypt/decrypt/crypt (`drv_life --prop C18`).
* **C03-C, C09-C, C09-D, C19-D, C07-C, C08-C, C08-D, C11-C, C11-D, C17-C, C17-D,
  C18-C, C18-D**: all need one request of 64 KiB, 512 KiB, 1 MiB, 4 MiB or 4 GiB
  (bulk fast paths with their own scratch buffers, 16-bit loop counters,
  `unsigned` byte counts).  Added: "marathon" CTR objects (70 000 calls,
  hundreds of rekeys, calls of 64 KiB..1 MiB, half of them right at a counter
  set, checked incrementally against the model; the same under MSan with the
  output buffer marked undefined), parallel calls of 4 096..1 048 577 blocks
  (also under MSan), round trips of 4..16 MiB, exact-extent guarded calls of
  64..300 KiB (in place, after a partial call, stream position checked
  afterwards), 1..3 MiB Arduino CTR calls, 64 KiB..590 KiB requests in the taint
  grid with 64-byte aligned buffers, bulk usage in the wipe monitor (growing
  64..300 KiB requests, then 2 100 small ones, every intermediate `free()` is
  scanned), 64..135 KiB requests in the thread workloads (own objects and the
  shared parallel-ECB objects), and (thorough) calls of 4 GiB + 4 KiB on a
  257-fold aliased 16 MiB mapping (`drv_huge`).
* **C10-C -> C10, C14**: lengths that wrap into the legal range when converted to
  bits/words modulo 2^32 (`vh_wrap_len`) are now part of every "huge length"
  class.
* **C15-C -> C15, C14**: calls on dead objects now also use empty requests and
  NULL buffers (the call must fail before looking at them).
* **C15-D -> C15**: cleanup of a zeroed / already cleaned-up object is run on a
  `PROT_READ` copy of the handle ("does nothing" means no store either).  The
  behaviour-preserving refactors below (one of which restructures cleanup) stay
  silent under this monitor.
* **C13-C, C13-D -> C13**: a wrong XCR0 mask, and AVX-encoded instructions
  reaching the generic/128-bit paths through a helper compiled with `-mavx2`.
  DESIGN section 3 said XGETBV cannot be trapped; it can be *emulated* by
  single-stepping (EFLAGS.TF): two new CPU models (XCR0 = 3, XCR0 = 1) run the
  init functions under a SIGTRAP handler that answers XGETBV, and for every
  CPU/OS model without usable AVX a whole object life cycle is single-stepped
  and any VEX/EVEX-encoded instruction executed by code of the executable
  (libc excluded) is a violation.  Single-stepping costs ~3 us per instruction
  and is limited to the first sweeps of a run.

* **C08-E -> C08**: a lookup-table S-box that exists only on the 32-bit-word
  source path.  The C08 quick tier ran the taint grid on the shipped path only;
  it now also runs it under MSan on `msan+W32` and `msan+NEUTRAL` (thorough:
  memcheck on those builds too).
* **C11-E / C14-E -> C11, C14** (both first caught only by the C16 fault
  enumeration): a failed init that leaves handle fields unassigned, and two
  cooperating edits that let a later call dereference the NULL context.  C11 now
  marks the caller's handle undefined before every fault-injected init and tests
  the definedness of the return value and of the handle afterwards (MSan and
  memcheck); C14 now runs the failed-init battery itself (allocation faults
  through the allocator monitor, every later call must return 0 without
  faulting).
* **C12-F -> C09**: a Clang-only attribute slip (aligned SIMD stores).  C12 caught
  it through its clang configurations; C09 now also runs its misaligned
  guard-buffer sweep on the `clang` build in the quick tier.
* **C13-F -> C13**: init leaving the vtable unassigned on CPU models without SIMD
  made the *driver* dereference garbage.  The handle's vtable is now first
  checked to lie inside the executable's read-only data
  (`handle-vtable-is-not-a-library-table-after-init`) before anything is read
  through it.
* **C15-F -> C15**: leaks in the init/cleanup storm loop were attributed to the
  wrong object; the loop now compares against the live-block count at its start.
* **C18-E -> C18**: a function-local `static` scratch buffer in the short-key
  path of `skinny64_set_key`.  The thread workloads reached it only through CTR
  histories (caught in 1 of 3 runs) and gcc's TSan does not see the inlined
  `memcpy`.  Added a fourth workload ("key-setup storm": 16 threads x 600
  back-to-back key/tweak set-ups of every legal length on private schedules,
  each followed by block operations) and a `tsan+NOBUILTIN` build
  (`-fno-builtin`, so `memcpy`/`memset` stay calls that the TSan runtime
  intercepts); now 1 500+ differing transcripts and TSan reports in every run.

### 9.7 Behaviour-preserving changes (false-alarm trials)

A sub-agent given all twenty statements produced eight refactors that keep
every property (plus all eight combined).  `tools/run_equiv.py` applies each
to a scratch worktree and runs every check (quick tier): all must exit 0.
Results are kept under `seeded/equivalent/<name>/`.

| change | what it does | result |
|---|---|---|
''' + '\n'.join(eq) + '''

This is the evidence that the behavioural (not structural) oracles hold up:
a different generic `parallel_size`, a `memset`+barrier wipe, re-encoded and
reordered private context fields, a different aligned-allocation strategy, an
algebraically different S-box, scratch writes into unused schedule entries,
reordered handle initialisation / cleanup and a rewritten option parser raise
no alarm.
'''
open(os.path.join(ROOT, 'DESIGN.md'), 'w').write(d)
print("seeds:", nseed, "equivalent:", len(eq))
