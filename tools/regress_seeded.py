#!/usr/bin/env python3
"""Re-runs every kept seeded change against the current machinery: for each seeded/<id>-<X>/ the checks that fired when
the change was confirmed are run again (same tier) on a scratch worktree with the patch applied; meta.json is updated
with the violation keys seen now.  Prints the seeds that are no longer caught.  usage: regress_seeded.py [-j N] [names...]"""
import json, os, subprocess, sys, tempfile, shutil, glob, concurrent.futures as cf
ROOT = os.path.dirname(os.path.dirname(os.path.abspath(__file__)))


def one(d):
    name = os.path.basename(d)
    meta = json.load(open(os.path.join(d, "meta.json")))
    fired = meta.get("originally_fired") or [p for p, c in meta.get("checks", {}).items() if c.get("fired")]
    meta["originally_fired"] = fired
    if not fired:
        return name, None, "no check fired originally"
    tier = meta.get("tier", "quick")
    wt = tempfile.mkdtemp(prefix="rg-"); os.rmdir(wt)
    ev = tempfile.mkdtemp(prefix="rg-ev-")
    out = {}
    try:
        subprocess.run(["git", "-C", "/repo", "worktree", "add", "-q", "--detach", wt, "HEAD"], check=True)
        p = subprocess.run(["git", "-C", wt, "apply", os.path.join(d, "patch.diff")], capture_output=True, text=True)
        if p.returncode != 0:
            return name, None, "patch does not apply: " + p.stderr[:200]
        env = dict(os.environ, VERIF_REPO=wt, VERIF_EVIDENCE_DIR=ev)
        for pr in fired:
            t = meta["checks"][pr].get("tier", tier)
            r = subprocess.run([os.path.join(ROOT, "bin", "check"), pr, "--tier", t], capture_output=True, text=True, env=env, cwd=ROOT)
            keys = [l.strip()[4:] for l in r.stdout.splitlines() if l.strip().startswith("key=")]
            out[pr] = {"exit": r.returncode, "fired": r.returncode == 1, "violation_keys": keys[:8], "tier": t}
    finally:
        subprocess.run(["git", "-C", "/repo", "worktree", "remove", "--force", wt], capture_output=True)
        shutil.rmtree(ev, ignore_errors=True)
    for pr, c in out.items():
        meta["checks"][pr].update(c)
    meta["rechecked_with_final_machinery"] = True
    json.dump(meta, open(os.path.join(d, "meta.json"), "w"), indent=1)
    caught = any(c["fired"] for c in out.values())
    return name, caught, {p: (c["exit"], c["violation_keys"][:1]) for p, c in out.items()}


def main():
    args = sys.argv[1:]; j = 3
    if args[:1] == ["-j"]:
        j = int(args[1]); args = args[2:]
    dirs = sorted(d for d in glob.glob(os.path.join(ROOT, "seeded", "C*")) if os.path.exists(os.path.join(d, "meta.json")))
    if args:
        dirs = [d for d in dirs if os.path.basename(d) in args]
    lost = []
    with cf.ThreadPoolExecutor(max_workers=j) as ex:
        for name, caught, info in ex.map(one, dirs):
            print(name, "caught" if caught else ("NOT CAUGHT" if caught is False else "skipped"), info, flush=True)
            if caught is False:
                lost.append(name)
    print("no longer caught:", lost)
    return 1 if lost else 0


if __name__ == "__main__":
    sys.exit(main())
