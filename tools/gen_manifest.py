#!/usr/bin/env python3
"""Regenerates /verif/MANIFEST.json from the check registry and the table below."""
import json, os, sys
ROOT = os.path.dirname(os.path.dirname(os.path.abspath(__file__)))
sys.path.insert(0, ROOT)
from vpy import checks

HOOK_COMMITS = ["c5cf169", "2895036"]

# property -> (technique, level text, level note, design ref)
T = {
 "C01": ("differential runtime monitor: library vs independent spec-level reference model over generated inputs, several build variants + ASan/UBSan/MSan; half of the calls on a relocated PROT_READ copy of the key schedule; random cases preceded by a foreign object keyed and used with a related key (hidden process-wide memo detection)",
         "Exploration: 10^5..10^7 generated (variant, key, block, direction) cases per run incl. every S-box input at every cell, walking-one tweakeys and random pairs, on the shipped build, the 32-bit and byte-order-neutral source paths and sanitizer builds; decides only the inputs executed.",
         "Trusted: the reference model (self-tested on the six published vectors each run); alternative word-size paths run on the 64-bit LE host through the switch hook.", "3/C01"),
 "C02": ("differential runtime monitor: library vs independent MANTIS model through all four entry points",
         "Exploration over (key, tweak, block, rounds, mode, entry point) with structured walking-one/nibble cases and random triples, three scalar source paths + sanitizers.",
         "Trusted: the MANTIS reference model (self-tested on the four published vectors each run).", "3/C02"),
 "C03": ("metamorphic round-trip monitor + model-based history monitor for Mantis mode switching, guard-page buffers",
         "Exploration: D(E(x)) and E(D(x)) through single-block and parallel entry points (every block count 0..40, random to 300, each back end), Mantis histories of mode switches and tweak changes against a four-field model and against fresh schedules.",
         "Metamorphic identities only show relative correctness; absolute correctness is tied to the models by C01/C02/C07.", "3/C03"),
 "C04": ("history monitor: stateful tweak-change histories vs a stateless from-scratch reference, also through the CTR tweak API on every back end",
         "Exploration over histories of tweak changes (lengths 1..block, NULL, chains of 1100 changes) on both tweakable schedules and through CTR objects.",
         "Trusted: reference model; history dependence is visible because the model has no history.", "3/C04"),
 "C05": ("history monitor: generated CTR call histories on every back end vs independent reference CTR stream (short histories, 70 000-call marathon objects with 64 KiB..1 MiB requests, thorough: >4 GiB calls), guard-page/ASan buffers",
         "Exploration: structured (every total length x cut pattern x counter kind) and random histories; carries through every byte, wrap-around, short/NULL counters, default counter, zero-length calls; every back end pinned and confirmed.",
         "Trusted: reference models; only segments inside the property's scope are judged.", "3/C05"),
 "C06": ("cross-back-end transcript-equality monitor over whole-API histories (CTR and parallel ECB)",
         "Exploration: arbitrary histories incl. mid-stream key/tweak changes, invalid calls, cleanup/re-init, run on generic, 128-bit and 256-bit back ends; every return value and output byte compared.",
         "Only back ends executable on this CPU; pinning via the cap hook confirmed from the handle.", "3/C06"),
 "C07": ("differential monitor: parallel ECB vs the library's single-block functions and vs the reference model, exact-extent guard buffers",
         "Exploration: every block count 0..27 structured plus random counts to 300, remainders, zero length, enc and dec separately, each back end; parallel_size sanity.",
         "Single-block functions are tied to the specification by C01/C02.", "3/C07"),
 "C08": ("secret-taint monitor: valgrind memcheck with key/tweak/counter/data marked undefined (and clang MSan poison), positive controls; lackey instruction/address trace equality across secrets",
         "Exploration over the public-parameter grid (variant, key length, rounds, mode, entry point, sizes, back end): any branch or address computed from a secret on an executed path is reported.",
         "Trusted: memcheck/MSan definedness propagation; microarchitectural timing is out of reach; only builds possible on this host.", "3/C08"),
 "C09": ("guard-page (PROT_NONE) exact-extent buffers + canaries on the shipped and clang builds, read-only (PROT_READ) input pages, ASan manual poisoning, memcheck NOACCESS (sample in quick); result equality across alignments, overlaps, adjacent buffers and buffers an exact multiple of 4 GiB apart",
         "Exploration: every pointer argument of every public function at misalignments 0..63, back- and front-guarded, all lengths up to 2 batches+17, overlap offsets, in-place bulk calls, every back end.",
         "Page-granular guards catch overruns beyond the alignment slack; byte-exact detection relies on ASan/memcheck variants.", "3/C09"),
 "C10": ("exhaustive key-length sweep monitor: accept/reject oracle, zero-padding equivalence vs padded key and reference model, schedule-untouched and stream-undisturbed checks (twin objects), stack painting; the object's previous key is in half of the cases the zero extension of the key under test; the same sweep through the three tools",
         "Exploration, exhaustive over key lengths 0..3 blocks+16 plus huge lengths for every key-setting entry point; sampled over key bytes.",
         "Trusted: reference models; 'untouched' is judged on the documented struct fields / twin outputs.", "3/C10"),
 "C11": ("definedness monitor at the API boundary (MSan shadow tests, memcheck CHECK_MEM_IS_DEFINED) + cross-process differential with painted stack/perturbed heap/optimisation levels",
         "Exploration over API histories with all inputs defined: every output byte, return value and documented schedule field must be defined and identical across processes that differ only in stack/heap contents and optimisation.",
         "Trusted: MSan/memcheck shadow state.", "3/C11"),
 "C12": ("configuration-matrix differential: the working tree built in many switch/compiler/optimisation/flag combinations (-O0..-O3, -Os, -Og, -march=native, -DNDEBUG, -funsigned-char, -flto, and the library as src/Makefile builds it), transcripts compared with the shipped build and the models",
         "Exploration over build configurations (12 quick / 128 thorough) x a fixed seeded workload covering C01-C07 operations.",
         "No real 32-bit/big-endian target: alternative source paths run on the host via the switch hook.", "3/C12"),
 "C13": ("CPUID trap monitor (arch_prctl ARCH_SET_CPUID): logs every CPUID (leaf, sub-leaf register) during init, serves emulated CPU models, injects register/stack garbage; XGETBV emulated, and VEX/EVEX, post-SSE2 (on an SSE2-only model) and XGETBV-without-OSXSAVE instructions watched, by single-stepping (EFLAGS.TF); selected back end read from the handle",
         "Exploration over calling contexts (register and stack garbage) x emulated CPU models x all six init functions, repeated; behavioural check of parallel_size.",
         "Emulated models on one physical CPU; XGETBV cannot be trapped.", "3/C13"),
 "C14": ("twin-history monitor: history with invalid calls vs the same history without them on the same back end; guard buffers, crash containment; failed-init objects produced by allocation-fault injection",
         "Exploration over histories x invalid-argument classes x object states for CTR, parallel-ECB and key-schedule functions.",
         "'Unchanged' is the property's own definition: identical later results.", "3/C14"),
 "C15": ("allocator event-log monitor (link-time --wrap of the malloc family and of mmap/munmap) with conservation/exactly-once checker, PROT_NONE quarantine of freed blocks, weakly aligned (8-byte) allocator mode with slack fill-pattern check, moved control blocks, 70 000 objects alive on the real allocator (heap balance), a process where mlock fails, inert-handle cleanup on a PROT_READ copy, ASan",
         "Exploration over life-cycle histories on several objects of each kind and back end.",
         "Allocator wrapped at link time; only calls made while a library call is in progress are attributed.", "3/C15"),
 "C16": ("fault injection: N-th allocation request failed through the allocator monitor, enumerated over init functions x back ends x prior handle contents (also in cold, freshly forked processes and on alternative compile-time paths), then a battery of later calls",
         "Fault enumeration: every allocation point of every init function on every back end with six prior-content classes of the caller's handle.",
         "Allocation points discovered by a dry run of the monitor.", "3/C16"),
 "C17": ("monitor at free() and munmap(): every block the library releases is scanned for non-zero bytes before release, on -O3 gcc and clang builds, also in a process where mlock fails (seccomp), with 220 objects alive, on LTO and clang builds",
         "Exploration over histories ending in cleanup for every object kind and back end with all fields non-zero beforehand (non-vacuity measured).",
         "Block sizes known from the matching allocation event.", "3/C17"),
 "C18": ("ThreadSanitizer (gcc and clang) and helgrind over 16-thread workloads (incl. first-ever calls made concurrently, key-setup storms, persistent workers across re-keying phases, 64 KiB+ requests; a -fno-builtin TSan build; a lock-free release/acquire pipeline handing 64 KiB..1 MiB outputs to a consumer thread that must see the sequential result) + process-state snapshots (signal dispositions, mask, FP control) + sequential-equivalence oracle + mprotect(PROT_READ) of shared parallel-ECB state during read-only calls, positive control race",
         "Exploration over schedules: distinct objects, shared read-only schedules/parallel objects, concurrent init/cleanup storms; overlap measured.",
         "Interleavings are sampled; happens-before detection needs an overlapping schedule, which the workloads provoke.", "3/C18"),
 "C19": ("differential monitor: Arduino C++ classes compiled for the host vs the C library and the models over generated op sequences",
         "Exploration over setKey/setTweak/swapModes/encrypt/decrypt/clear sequences for the 11 classes and CTR<T>.",
         "Portable C++ path only (AVR assembly cannot run on the host).", "3/C19"),
 "C20": ("differential monitor on generated files (0 bytes .. several MiB): example tools built from the tree vs the library API driven by the harness, round trips, shuffled and repeated options, invalid invocations",
         "Exploration over file lengths, key lengths, counter/tweak values and option spellings for the three tools.",
         "Tools run as subprocesses on temp files.", "3/C20"),
}


def main():
    props = [json.loads(l)["id"] for l in open(os.path.join(ROOT, "properties.jsonl"))]
    claimed = [p for p in props if p in checks.REGISTRY]
    m = {
        "version": 1,
        "setup_cmd": "python3 /verif/tools/setup_check.py",
        "hooks": {
            "guard": "RWEATHER_SKINNY_C_VERIF",
            "enable": "checks compile /repo/src/*.c out of tree with -DRWEATHER_SKINNY_C_VERIF (plus -DSKINNY_VERIF_<switch>=0|1 for configuration variants); the guard adds a switch-override block in src/skinny-internal.h and a back-end cap in src/skinny-internal.c",
            "baseline_off_cmd": "make -C /repo clean all check",
            "source_commits": HOOK_COMMITS,
            "add_only": True,
        },
        "engines": [{"name": "vpy+harness", "path": "/verif/bin/check", "serves_properties": claimed,
                     "kind_free_text": "python orchestrator building /repo out of tree in sanitizer/configuration variants and running C monitors (reference models, history interpreter, guard arenas, allocator wrapper, CPUID trap, taint)"}],
        "checks": [],
        "notes": "All checks: cwd=/verif, VERIF_SEED honoured, exit 0/1/2 = held/violation/inconclusive. Known findings: /verif/known-findings.txt.",
        "not_applicable": [],
    }
    for p in props:
        if p in claimed:
            tech, text, note, ref = T[p]
            m["checks"].append({
                "property_id": p,
                "quick_cmd": "bin/check %s --tier quick" % p,
                "thorough_cmd": "bin/check %s --tier thorough" % p,
                "evidence_file": "/verif/evidence/%s.json" % p,
                "replay_cmd_template": "bin/check %s --replay {path}" % p,
                "engine": "vpy+harness",
                "level_claimed": {"category": checks.LEVEL.get(p, "exploration"), "text": text, "design_ref": "DESIGN.md section " + ref},
                "level_note": note,
                "technique": tech,
            })
        else:
            m["not_applicable"].append({"property_id": p, "reason": "not claimed yet: check under construction (runtime monitoring applies; see DESIGN.md section 3)"})
    json.dump(m, open(os.path.join(ROOT, "MANIFEST.json"), "w"), indent=1)
    print("claimed:", " ".join(claimed))


if __name__ == "__main__":
    main()
