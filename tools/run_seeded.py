#!/usr/bin/env python3
"""Mutation trial: apply a seeded patch to a scratch worktree of /repo, run the given checks
against it (VERIF_REPO), report which fire.  usage: run_seeded.py <patch.diff> <tier> <prop> [<prop>...]
Evidence of these trial runs goes to a temporary directory, never to /verif/evidence."""
import os, subprocess, sys, tempfile, shutil, json
ROOT = os.path.dirname(os.path.dirname(os.path.abspath(__file__)))
patch, tier, props = sys.argv[1], sys.argv[2], sys.argv[3:]
wt = tempfile.mkdtemp(prefix="seedwt-")
ev = tempfile.mkdtemp(prefix="seedev-")
os.rmdir(wt)
res = {}
try:
    subprocess.run(["git", "-C", "/repo", "worktree", "add", "-q", "--detach", wt, "HEAD"], check=True)
    p = subprocess.run(["git", "-C", wt, "apply", os.path.abspath(patch)], capture_output=True, text=True)
    if p.returncode != 0:
        print("PATCH DOES NOT APPLY:", p.stderr); sys.exit(3)
    env = dict(os.environ, VERIF_REPO=wt, VERIF_EVIDENCE_DIR=ev)
    for pr in props:
        q = subprocess.run([os.path.join(ROOT, "bin", "check"), pr, "--tier", tier], capture_output=True, text=True, env=env, cwd=ROOT)
        keys = [l.strip() for l in q.stdout.splitlines() if l.strip().startswith("key=")]
        res[pr] = {"exit": q.returncode, "keys": keys[:8], "last": q.stdout.strip().splitlines()[-1] if q.stdout.strip() else ""}
        print("%s exit=%d %s" % (pr, q.returncode, "; ".join(k[:140] for k in keys[:4])))
finally:
    subprocess.run(["git", "-C", "/repo", "worktree", "remove", "--force", wt])
    shutil.rmtree(ev, ignore_errors=True)
print(json.dumps(res))
