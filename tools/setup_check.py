#!/usr/bin/env python3
"""setup_cmd: nothing is prebuilt (every check rebuilds from /repo's working tree);
this only verifies the toolchain the checks need is present."""
import shutil, sys, os
need = ["gcc", "clang", "make", "ar", "python3", "valgrind", "g++"]
missing = [t for t in need if not shutil.which(t)]
os.makedirs(os.path.join(os.path.dirname(os.path.dirname(os.path.abspath(__file__))), "evidence", "replay"), exist_ok=True)
if missing:
    print("missing tools: " + " ".join(missing)); sys.exit(1)
print("setup ok")
