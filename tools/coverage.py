#!/usr/bin/env python3
"""Diagnostic (not a registered check): which lines of /repo/src do the quick (or thorough) workloads execute?
Runs every check with VERIF_COV set (gcc builds without sanitizer get gcov instrumentation at -O0) into a scratch
evidence directory, merges the line counts and lists source lines that no workload executed.
usage: tools/coverage.py [--tier quick] [--out DIR] [C01 C02 ...]"""
import os, sys, json, subprocess, argparse, glob, tempfile, shutil
ROOT = os.path.dirname(os.path.dirname(os.path.abspath(__file__)))
REPO = os.environ.get("VERIF_REPO", "/repo")


def main():
    ap = argparse.ArgumentParser()
    ap.add_argument("--tier", default="quick")
    ap.add_argument("--out", default=None)
    ap.add_argument("props", nargs="*")
    a = ap.parse_args()
    out = a.out or tempfile.mkdtemp(prefix="vp-cov-")
    os.makedirs(os.path.join(out, "ev"), exist_ok=True)
    props = a.props or [json.loads(l)["id"] for l in open(os.path.join(ROOT, "properties.jsonl"))]
    env = dict(os.environ, VERIF_COV=out, VERIF_EVIDENCE_DIR=os.path.join(out, "ev"))
    for p in props:
        r = subprocess.run([os.path.join(ROOT, "bin", "check"), p, "--tier", a.tier], env=env, capture_output=True, text=True)
        print(p, "exit", r.returncode, r.stdout.strip().splitlines()[-1][:150] if r.stdout.strip() else "")
    merged, funcs, per = {}, {}, {}
    for f in sorted(glob.glob(os.path.join(out, "C*-%s.json" % a.tier))):
        j = json.load(open(f)); prop = os.path.basename(f)[:3]
        for name, lines in j["lines"].items():
            m = merged.setdefault(name, {})
            for l, c in lines.items():
                m[int(l)] = m.get(int(l), 0) + c
                if c: per.setdefault(name, {}).setdefault(int(l), set()).add(prop)
        for k, c in j["functions"].items():
            funcs[k] = funcs.get(k, 0) + c
    tot = hit = 0
    rep = []
    for name in sorted(merged):
        m = merged[name]; t = len(m); h = sum(1 for c in m.values() if c)
        tot += t; hit += h
        rep.append("%-34s %5d/%5d lines executed" % (name, h, t))
        src = open(os.path.join(REPO, name), errors="replace").read().splitlines() if os.path.exists(os.path.join(REPO, name)) else []
        for l in sorted(m):
            if not m[l]:
                rep.append("    not executed %s:%d: %s" % (name, l, src[l - 1].strip() if l <= len(src) else ""))
    rep.append("TOTAL %d/%d lines executed (%.1f%%)" % (hit, tot, 100.0 * hit / max(tot, 1)))
    rep.append("functions never executed: " + ", ".join(sorted(k for k, c in funcs.items() if not c)))
    txt = "\n".join(rep)
    open(os.path.join(out, "coverage-%s.txt" % a.tier), "w").write(txt + "\n")
    print(txt)
    print("report:", os.path.join(out, "coverage-%s.txt" % a.tier))


if __name__ == "__main__":
    main()
