#!/usr/bin/env python3
"""Prints the markdown table of seeded changes (from seeded/*/meta.json) for DESIGN.md section 9.6."""
import glob, json, os
ROOT = os.path.dirname(os.path.dirname(os.path.abspath(__file__)))
rows = []
for f in sorted(glob.glob(os.path.join(ROOT, "seeded", "*", "meta.json"))):
    m = json.load(open(f))
    name = m["name"]
    what = ""
    rd = os.path.join(os.path.dirname(f), "README.md")
    if os.path.exists(rd):
        txt = [l.strip() for l in open(rd) if l.strip() and not l.startswith("#")]
        what = (txt[0] if txt else "")[:160].replace("|", "/")
    fired = [p for p, c in m.get("checks", {}).items() if c.get("fired")]
    missed = [p for p, c in m.get("checks", {}).items() if not c.get("fired")]
    key = ""
    for p in fired[:1]:
        ks = m["checks"][p]["violation_keys"]
        key = ks[0].split(" occurrences")[0] if ks else ""
    caught = ", ".join(fired) or ("none - judged out of scope: " + m["judged_out_of_scope"].replace("|", "/") if m.get("judged_out_of_scope") else "-")
    rows.append("| %s | %s | %s | %s | `%s` |" % (name, what, caught, ", ".join(missed) or "-", key))
print("| seeded change | what it does | caught by (tier in meta.json) | tried, silent | first violation key |")
print("|---|---|---|---|---|")
print("\n".join(rows))
