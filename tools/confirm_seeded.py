#!/usr/bin/env python3
"""Confirm a seeded change produced by a sub-agent and try the checks on it.
usage: confirm_seeded.py <srcdir> <X> <name> <prop> [<more props>...] [--tier quick|thorough] [--keep]
  <srcdir>/X.diff, X_demo.{c,cpp,sh}, X_README.md   ->   /verif/seeded/<name>/{patch.diff,demo.*,README.md,meta.json}
Steps (all in a scratch worktree of /repo HEAD, removed afterwards):
  clean tree: make clean all check (30 ok), demo exits 0
  patched tree: make clean all check (30 ok), demo exits non-zero
  then each check (quick tier unless --tier) is run with VERIF_REPO=<patched worktree>."""
import glob, json, os, shutil, subprocess, sys, tempfile

ROOT = os.path.dirname(os.path.dirname(os.path.abspath(__file__)))


def sh(cmd, **kw):
    return subprocess.run(cmd, stdout=subprocess.PIPE, stderr=subprocess.STDOUT, text=True, **kw)


def suite(wt):
    p = sh(["make", "-C", wt, "clean", "all", "check"])
    return p.stdout.count(": ok"), p.returncode, p.stdout[-1500:]


def build_demo(wt, demo, exe):
    ard = os.path.join(wt, "arduino", "libraries", "Skinny")
    if demo.endswith(".sh"):
        return None
    if demo.endswith(".cpp"):
        srcs = [demo] + sorted(glob.glob(os.path.join(ard, "*.cpp")))
        cmd = ["g++", "-O1", "-I" + os.path.join(wt, "include"), "-I" + ard, "-I" + os.path.join(wt, "src")] + srcs + [os.path.join(wt, "src", "libskinny.a"), "-o", exe, "-lpthread"]
    else:
        import re
        txt = open(demo).read()
        if re.search(r"/tmp/mut\d?-C\d\d", txt):
            # hard-coded worktree path (e.g. the directory of the example tools): point it at ours
            d2 = os.path.join(tempfile.mkdtemp(prefix="demo-"), os.path.basename(demo))
            open(d2, "w").write(re.sub(r"/tmp/mut\d?-C\d\d", wt, txt))
            demo = d2
        wraps = sorted(set(re.findall(r"__wrap_([A-Za-z_0-9]+)", open(demo).read())))
        wl = ["-Wl," + ",".join("--wrap=" + w for w in wraps)] if wraps else []
        hook = ["-DRWEATHER_SKINNY_C_VERIF"] if "_skinny_verif_backend_cap" in open(demo).read() else []
        cmd = ["gcc", "-O1", "-std=gnu99"] + hook + ["-I" + os.path.join(wt, "include"), "-I" + os.path.join(wt, "src"), demo, os.path.join(wt, "src", "libskinny.a"), "-o", exe, "-lpthread", "-ldl"] + wl
    p = sh(cmd)
    return p


def run_demo(wt, demo, exe):
    if demo.endswith(".sh"):
        import re, shutil as _sh
        # scripts written by the sub-agents sometimes hard-code their own worktree: point them at ours
        tmpd = tempfile.mkdtemp(prefix="demo-")
        for f in glob.glob(os.path.join(os.path.dirname(demo), os.path.basename(demo).split("_")[0] + "_demo.*")):
            _sh.copy(f, tmpd)
        demo2 = os.path.join(tmpd, os.path.basename(demo))
        txt = re.sub(r"/tmp/mut\d?-C\d\d", wt, open(demo2).read())
        open(demo2, "w").write(txt)
        demo = demo2
        arg1 = os.path.join(wt, "examples") if re.search(r"\$\{1:-[^}]*examples\}", txt) else wt
        p = sh(["bash", demo, arg1], cwd=wt, timeout=600, env=dict(os.environ, TREE=wt, WT=wt, WORKTREE=wt, SKINNY_ROOT=wt, ROOT=wt, SRC=wt, SKINNY_SRC=wt, SKINNY_TREE=wt, SKINNY_DIR=wt, REPO=wt))
    else:
        if "_skinny_verif_backend_cap" in open(demo).read():
            # the demonstration pins back ends through the verification hook: it needs a library built with the guard on
            sh(["make", "-C", os.path.join(wt, "src"), "clean", "all"], env=dict(os.environ, CFLAGS="-DRWEATHER_SKINNY_C_VERIF"))
        b = build_demo(wt, demo, exe)
        if b.returncode != 0:
            return None, "demo build failed: " + b.stdout[-800:]
        p = sh([exe], cwd=wt, timeout=600)
    return p.returncode, p.stdout[-600:]


def main():
    args = sys.argv[1:]
    tier = "quick"; keep = False
    if "--tier" in args:
        i = args.index("--tier"); tier = args[i + 1]; del args[i:i + 2]
    if "--keep" in args:
        args.remove("--keep"); keep = True
    srcdir, X, name = args[0], args[1], args[2]
    props = args[3:]
    patch = os.path.join(srcdir, X + ".diff")
    demos = [f for f in glob.glob(os.path.join(srcdir, X + "_demo.*")) if f.rsplit(".", 1)[-1] in ("c", "cpp", "sh")]
    if not os.path.exists(patch) or not demos:
        print("missing patch or demo in", srcdir); return 2
    demos.sort(key=lambda f: 0 if f.endswith(".sh") else 1)     # a shell demo drives the build itself
    demo = demos[0]
    wt = tempfile.mkdtemp(prefix="confirm-"); os.rmdir(wt)
    ev = tempfile.mkdtemp(prefix="confirm-ev-")
    meta = {"name": name, "patch_from": patch, "properties_targeted": props, "tier": tier}
    try:
        subprocess.run(["git", "-C", "/repo", "worktree", "add", "-q", "--detach", wt, "HEAD"], check=True)
        ok, rc, tail = suite(wt)
        meta["clean_suite_ok_lines"] = ok
        r, o = run_demo(wt, demo, os.path.join(wt, "demo_exe"))
        meta["clean_demo_exit"] = r; meta["clean_demo_output"] = o
        p = sh(["git", "-C", wt, "apply", patch])
        if p.returncode != 0:
            meta["error"] = "patch does not apply: " + p.stdout; print(json.dumps(meta, indent=1)); return 3
        ok2, rc2, tail2 = suite(wt)
        meta["patched_suite_ok_lines"] = ok2
        r2, o2 = run_demo(wt, demo, os.path.join(wt, "demo_exe"))
        meta["patched_demo_exit"] = r2; meta["patched_demo_output"] = o2
        meta["confirmed"] = (ok == 30 and ok2 == 30 and r == 0 and r2 not in (0, None))
        env = dict(os.environ, VERIF_REPO=wt, VERIF_EVIDENCE_DIR=ev)
        meta["checks"] = {}
        for pr in props:
            q = subprocess.run([os.path.join(ROOT, "bin", "check"), pr, "--tier", tier], stdout=subprocess.PIPE, stderr=subprocess.STDOUT, text=True, env=env, cwd=ROOT)
            keys = [l.strip()[4:] for l in q.stdout.splitlines() if l.strip().startswith("key=")]
            meta["checks"][pr] = {"exit": q.returncode, "fired": q.returncode == 1, "violation_keys": keys[:10], "summary": (q.stdout.strip().splitlines() or [""])[-1][:300]}
    finally:
        subprocess.run(["git", "-C", "/repo", "worktree", "remove", "--force", wt])
        shutil.rmtree(ev, ignore_errors=True)
    dst = os.path.join(ROOT, "seeded", name)
    if meta.get("confirmed") or keep:
        os.makedirs(dst, exist_ok=True)
        shutil.copy(patch, os.path.join(dst, "patch.diff"))
        for f in glob.glob(os.path.join(srcdir, X + "_demo.*")):
            if f.rsplit(".", 1)[-1] in ("c", "cpp", "sh", "py"):
                shutil.copy(f, os.path.join(dst, os.path.basename(f)))
        rd = os.path.join(srcdir, X + "_README.md")
        if os.path.exists(rd):
            shutil.copy(rd, os.path.join(dst, "README.md"))
        meta["what_we_ran"] = "tools/confirm_seeded.py: scratch worktree of /repo HEAD; make clean all check + demo on clean and patched tree; bin/check <prop> --tier %s with VERIF_REPO=<patched worktree>" % tier
        mp = os.path.join(dst, "meta.json")
        if os.path.exists(mp):      # keep results of checks tried in earlier runs
            old = json.load(open(mp))
            merged = dict(old.get("checks", {})); merged.update(meta["checks"]); meta["checks"] = merged
            meta["properties_targeted"] = sorted(set(old.get("properties_targeted", [])) | set(props))
        json.dump(meta, open(mp, "w"), indent=1)
    brief = {k: meta.get(k) for k in ("name", "confirmed", "clean_suite_ok_lines", "clean_demo_exit", "patched_suite_ok_lines", "patched_demo_exit", "error")}
    brief["patched_demo_output"] = (meta.get("patched_demo_output") or "")[-300:]
    brief["checks"] = {p: {"fired": c["fired"], "exit": c["exit"], "violation_keys": c["violation_keys"][:4]} for p, c in meta.get("checks", {}).items()}
    print(json.dumps(brief))
    return 0


if __name__ == "__main__":
    sys.exit(main())
