#!/usr/bin/env python3
"""Equivalent-change trial: apply a behaviour-preserving patch to a scratch worktree of /repo HEAD, confirm the 30
tests still pass, and run every check (quick tier) against it: all must stay silent (exit 0).
usage: run_equiv.py <patch.diff> <name> [props...]   -> /verif/seeded/equivalent/<name>/{patch.diff,README.md,meta.json}"""
import json, os, shutil, subprocess, sys, tempfile
ROOT = os.path.dirname(os.path.dirname(os.path.abspath(__file__)))
patch, name = sys.argv[1], sys.argv[2]
props = sys.argv[3:] or ["C%02d" % i for i in range(1, 21)]
wt = tempfile.mkdtemp(prefix="equiv-"); os.rmdir(wt)
ev = tempfile.mkdtemp(prefix="equiv-ev-")
meta = {"name": name, "kind": "behaviour-preserving change: every check must stay silent", "checks": {}}
try:
    subprocess.run(["git", "-C", "/repo", "worktree", "add", "-q", "--detach", wt, "HEAD"], check=True)
    p = subprocess.run(["git", "-C", wt, "apply", os.path.abspath(patch)], capture_output=True, text=True)
    if p.returncode != 0:
        print("PATCH DOES NOT APPLY", p.stderr); sys.exit(3)
    q = subprocess.run(["make", "-C", wt, "clean", "all", "check"], capture_output=True, text=True)
    meta["suite_ok_lines"] = q.stdout.count(": ok")
    env = dict(os.environ, VERIF_REPO=wt, VERIF_EVIDENCE_DIR=ev)
    for pr in props:
        r = subprocess.run([os.path.join(ROOT, "bin", "check"), pr, "--tier", "quick"], capture_output=True, text=True, env=env, cwd=ROOT)
        keys = [l.strip()[4:] for l in r.stdout.splitlines() if l.strip().startswith("key=")]
        meta["checks"][pr] = {"exit": r.returncode, "silent": r.returncode == 0, "violation_keys": keys[:6], "summary": (r.stdout.strip().splitlines() or [""])[-1][:200]}
        print(pr, "exit", r.returncode, keys[:3], flush=True)
finally:
    subprocess.run(["git", "-C", "/repo", "worktree", "remove", "--force", wt])
    shutil.rmtree(ev, ignore_errors=True)
dst = os.path.join(ROOT, "seeded", "equivalent", name)
os.makedirs(dst, exist_ok=True)
shutil.copy(patch, os.path.join(dst, "patch.diff"))
rd = patch.replace(".diff", "_README.md")
if os.path.exists(rd):
    shutil.copy(rd, os.path.join(dst, "README.md"))
mp = os.path.join(dst, "meta.json")
if os.path.exists(mp):
    old = json.load(open(mp))
    merged = dict(old.get("checks", {})); merged.update(meta["checks"]); meta["checks"] = merged
meta["all_silent"] = all(c["silent"] for c in meta["checks"].values())
json.dump(meta, open(os.path.join(dst, "meta.json"), "w"), indent=1)
print(name, "suite_ok", meta.get("suite_ok_lines"), "ALL SILENT" if meta["all_silent"] else "ALARMS: " + ", ".join(p for p, c in meta["checks"].items() if not c["silent"]))
