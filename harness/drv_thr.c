/* Driver for C18: thread safety.  Built with -fsanitize=thread (gcc and
 * clang) or run under helgrind.  16 threads, start barrier, random yields.
 *   W1 distinct objects : each thread runs its own CTR and parallel histories on its own objects
 *   W2 shared read-only : one key schedule of each kind and one parallel-ECB object of each kind,
 *                         keyed before the threads start, used concurrently on private data
 *   W3 init/cleanup storm: concurrent *_init / *_cleanup (CPU detection + allocation) with a short use
 * Oracles: the race detector's reports (parsed by the orchestrator) and
 * sequential equivalence: every thread's transcript must equal the transcript
 * of the same work computed single-threaded beforehand.
 * This file does not use the guard arenas or the fork containment (neither is thread safe). */
#define _GNU_SOURCE
#include "hist.h"
#include <pthread.h>
#include <sched.h>
#include <string.h>
#include <stdlib.h>
#include <time.h>
#include <signal.h>
#include <sys/stat.h>

#define NT_MAX 32
static int NT = 16;
static int maxbe[CIPH_N];
static pthread_barrier_t bar;
static int in_lib, in_lib_max;                 /* relaxed atomics: no happens-before edges */
static unsigned ticket; static uint8_t order_log[64];
static uint64_t sig_set[4096]; static int sig_n;

static inline void enter_lib(int tid)
{
    int v = __atomic_add_fetch(&in_lib, 1, __ATOMIC_RELAXED), m = __atomic_load_n(&in_lib_max, __ATOMIC_RELAXED);
    unsigned t = __atomic_fetch_add(&ticket, 1, __ATOMIC_RELAXED);
    if (t < 64) order_log[t] = (uint8_t)tid;
    while (v > m && !__atomic_compare_exchange_n(&in_lib_max, &m, v, 1, __ATOMIC_RELAXED, __ATOMIC_RELAXED)) { }
}
static inline void leave_lib(void) { __atomic_sub_fetch(&in_lib, 1, __ATOMIC_RELAXED); }
static void maybe_yield(vh_rng *r)
{
    uint32_t x = vh_below(r, 16);
    if (x == 0) sched_yield();
    else if (x == 1) { struct timespec ts = {0, (long)vh_below(r, 20000)}; nanosleep(&ts, NULL); }
}

/* ---------- thread-safe mini interpreters (heap buffers, no globals) ---------- */
typedef struct { uint8_t *out; size_t n, cap; uint64_t rets; int nret; } tscript;
static void ts_put(tscript *t, const void *p, size_t n) { if (t->n + n <= t->cap) { memcpy(t->out + t->n, p, n); t->n += n; } }
static void ts_ret(tscript *t, int r) { t->rets = t->rets * 1000003u + (uint64_t)(r + 7); t->nret++; }

static void run_ctr(const chist *h, tscript *t, int tid, vh_rng *yr)
{
    const vh_cipher *c = h->c; vh_handle H; int i, live = 0; uint8_t *buf = malloc(8192);
    memset(&H, 0, sizeof(H));
    for (i = 0; i < h->n; ++i) {
        const cop *o = &h->ops[i]; vh_handle *obj = (o->flags & F_NULL_OBJ) ? NULL : &H; int ret = -1;
        const uint8_t *dp = (o->flags & F_NULL_PTR) ? NULL : h->pool + o->doff;
        if (yr) maybe_yield(yr);
        enter_lib(tid);
        switch (o->kind) {
        case C_INIT: ret = c->ctr_init(obj); if (obj && ret) live = 1; break;
        case C_CLEANUP: c->ctr_cleanup(obj); if (obj) live = 0; break;
        case C_SET_KEY: ret = c->ctr_set_key(obj, dp, o->len, o->rounds); break;
        case C_SET_TKEY: ret = c->ctr_set_tkey(obj, dp, o->len); break;
        case C_SET_TWEAK: ret = c->ctr_set_tweak(obj, dp, o->len); break;
        case C_SET_COUNTER: ret = c->ctr_set_counter(obj, dp, o->len); break;
        case C_ENCRYPT:
            if (o->len <= 8192) {
                memcpy(buf, h->pool + o->doff, o->len);
                ret = c->ctr_encrypt((o->flags & F_NULL_OUT) ? NULL : buf, (o->flags & F_NULL_IN) ? NULL : buf, o->len, obj);
                if (ret) ts_put(t, buf, o->len);
            }
            break;
        }
        leave_lib();
        ts_ret(t, ret);
    }
    if (live) c->ctr_cleanup(&H);
    free(buf);
}
static void run_par(const phist *h, tscript *t, int tid, vh_rng *yr)
{
    const vh_cipher *c = h->c; vh_handle H; int i, live = 0; uint8_t *buf = malloc(16384), *out = malloc(16384);
    memset(&H, 0, sizeof(H));
    for (i = 0; i < h->n; ++i) {
        const cop *o = &h->ops[i]; vh_handle *obj = (o->flags & F_NULL_OBJ) ? NULL : &H; int ret = -1;
        if (yr) maybe_yield(yr);
        enter_lib(tid);
        switch (o->kind) {
        case P_INIT: ret = c->par_init(obj); if (obj && ret) live = 1; break;
        case P_CLEANUP: c->par_cleanup(obj); if (obj) live = 0; break;
        case P_SWAP: c->par_swap(obj); break;
        case P_SET_KEY: ret = c->par_set_key(obj, (o->flags & F_NULL_PTR) ? NULL : h->pool + o->doff, o->len, o->rounds, (int)h->mode[i]); break;
        case P_ENCRYPT: case P_DECRYPT:
            if (o->len <= 8192) {
                memcpy(buf, h->pool + o->doff, o->dlen);
                ret = (o->kind == P_DECRYPT ? c->par_decrypt : c->par_encrypt)(out, buf, buf + o->len, o->len, obj);
                if (ret) ts_put(t, out, o->len);
            }
            break;
        }
        leave_lib();
        ts_ret(t, ret);
    }
    if (live) c->par_cleanup(&H);
    free(buf); free(out);
}

static Skinny128Key_t SK128; static Skinny64Key_t SK64; static Skinny128TweakedKey_t STK128; static Skinny64TweakedKey_t STK64;
static MantisKey_t SMK; static vh_handle SPAR[CIPH_N];

/* ---------- bulk requests (64 KiB and more): own objects and one shared parallel-ECB object ---------- */
static void run_bulk(uint64_t seed, tscript *t, int tid, vh_rng *yr, int shared_par)
{
    vh_rng r; size_t n1, n2; uint8_t key[16], *a = malloc(300000), *b = malloc(300000); uint64_t hh; int ret, k;
    const vh_cipher *c;
    vh_rng_seed(&r, seed, 0x18, 555);
    c = &vh_ciphers[vh_below(&r, CIPH_N)];
    vh_rand_bytes(&r, key, 16); vh_rand_bytes(&r, a, 4096); for (k = 4096; k < 300000; ++k) a[k] = (uint8_t)(a[k - 4096] + 5);
    n1 = 65536 + vh_below(&r, 70000); n2 = (65536 + vh_below(&r, 40000)) / 16 * 16;
    if (yr) maybe_yield(yr);
    {   /* own CTR object, one large call (out of place) then a large in-place call */
        vh_handle h; memset(&h, 0, sizeof(h));
        enter_lib(tid);
        ret = c->ctr_init(&h); ret &= c->ctr_set_key(&h, key, 16, 7); ret &= c->ctr_encrypt(b, a, n1, &h); hh = vh_hash(b, n1, VH_HASH_INIT);
        ret &= c->ctr_encrypt(b, b, n1, &h); hh = vh_hash(b, n1, hh);
        c->ctr_cleanup(&h);
        leave_lib();
        ts_ret(t, ret); ts_put(t, &hh, 8);
    }
    if (yr) maybe_yield(yr);
    {   /* own parallel object, and (workload 1) the shared read-only one */
        vh_handle h; memset(&h, 0, sizeof(h));
        enter_lib(tid);
        ret = c->par_init(&h); ret &= c->par_set_key(&h, key, 16, 7, 1); ret &= c->par_encrypt(b, a, a + 100, n2, &h); hh = vh_hash(b, n2, VH_HASH_INIT);
        if (c->par_decrypt) { ret &= c->par_decrypt(b, a, NULL, n2, &h); hh = vh_hash(b, n2, hh); }
        c->par_cleanup(&h);
        leave_lib();
        ts_ret(t, ret); ts_put(t, &hh, 8);
        if (shared_par) for (k = 0; k < CIPH_N; ++k) {
            const vh_cipher *c2 = &vh_ciphers[k];
            enter_lib(tid);
            ret = c2->par_encrypt(b, a, a + 64, n2, &SPAR[k]); hh = vh_hash(b, n2, VH_HASH_INIT);
            if (c2->par_decrypt) { ret &= c2->par_decrypt(b, a, NULL, n2, &SPAR[k]); hh = vh_hash(b, n2, hh); }
            leave_lib();
            ts_ret(t, ret); ts_put(t, &hh, 8);
        }
    }
    free(a); free(b);
}

/* ---------- shared read-only objects (W2) ---------- */


static void run_shared(uint64_t seed, tscript *t, int tid, vh_rng *yr)
{
    vh_rng r; int i; uint8_t in[512], out[512], tw[512];
    vh_rng_seed(&r, seed, 0x18, 77);
    for (i = 0; i < 60; ++i) {
        unsigned k = vh_below(&r, 10), nb;
        vh_rand_bytes(&r, in, sizeof(in)); vh_rand_bytes(&r, tw, sizeof(tw));
        if (yr) maybe_yield(yr);
        enter_lib(tid);
        switch (k) {
        case 0: skinny128_ecb_encrypt(out, in, &SK128); ts_put(t, out, 16); break;
        case 1: skinny128_ecb_decrypt(out, in, &SK128); ts_put(t, out, 16); break;
        case 2: skinny64_ecb_encrypt(out, in, &SK64); skinny64_ecb_decrypt(out + 8, in + 8, &SK64); ts_put(t, out, 16); break;
        case 3: skinny128_ecb_encrypt(out, in, &STK128.ks); skinny128_ecb_decrypt(out + 16, in, &STK128.ks); ts_put(t, out, 32); break;
        case 4: skinny64_ecb_encrypt(out, in, &STK64.ks); ts_put(t, out, 8); break;
        case 5: mantis_ecb_crypt(out, in, &SMK); mantis_ecb_crypt_tweaked(out + 8, in + 8, tw, &SMK); ts_put(t, out, 16); break;
        default: {
            const vh_cipher *c = &vh_ciphers[k % CIPH_N]; int ret;
            nb = vh_below(&r, 25);
            ret = c->par_encrypt(out, in, tw, nb * c->bb, &SPAR[c->id]); ts_ret(t, ret); ts_put(t, out, nb * c->bb);
            if (c->par_decrypt) { ret = c->par_decrypt(out, in, tw, nb * c->bb, &SPAR[c->id]); ts_ret(t, ret); ts_put(t, out, nb * c->bb); }
            break; }
        }
        leave_lib();
    }
}

/* ---------- init/cleanup storm (W3) ---------- */
static void run_storm(uint64_t seed, tscript *t, int tid, vh_rng *yr)
{
    vh_rng r; int i; uint8_t key[16], z[64], out[64];
    vh_rng_seed(&r, seed, 0x18, 99);
    memset(z, 0, sizeof(z));
    for (i = 0; i < 40; ++i) {
        const vh_cipher *c = &vh_ciphers[vh_below(&r, CIPH_N)]; vh_handle h; int par = (int)vh_below(&r, 2), ret, be;
        memset(&h, 0, sizeof(h)); vh_rand_bytes(&r, key, 16);
        if (yr) maybe_yield(yr);
        enter_lib(tid);
        ret = par ? c->par_init(&h) : c->ctr_init(&h);
        be = ret ? (par ? c->par_backend(&h) : c->ctr_backend(&h)) : -1;
        ts_ret(t, ret); ts_ret(t, be);
        if (ret) {
            if (par) { c->par_set_key(&h, key, 16, 7, 1); c->par_encrypt(out, z, z, 2 * c->bb, &h); ts_put(t, out, 2 * c->bb); c->par_cleanup(&h); }
            else { c->ctr_set_key(&h, key, 16, 7); c->ctr_encrypt(out, z, 40, &h); ts_put(t, out, 40); c->ctr_cleanup(&h); }
        }
        leave_lib();
    }
}

/* ---------- key-setup storm (W4): every thread sets up its own key schedules in a tight loop ---------- */
static void run_keys(uint64_t seed, tscript *t, int tid, vh_rng *yr)
{
    vh_rng r; int i; uint8_t key[64], tw[16], in[16], out[32];
    Skinny128Key_t k128; Skinny64Key_t k64; Skinny128TweakedKey_t t128; Skinny64TweakedKey_t t64; MantisKey_t mk;
    vh_rng_seed(&r, seed, 0x18, 1234);
    for (i = 0; i < 600; ++i) {
        unsigned k = vh_below(&r, 6); int ret = 1; unsigned len;
        vh_rand_bytes(&r, key, sizeof(key)); vh_rand_bytes(&r, tw, sizeof(tw)); vh_rand_bytes(&r, in, sizeof(in));
        memset(out, 0, sizeof(out));
        if (yr && (i & 63) == 0) maybe_yield(yr);
        enter_lib(tid);
        switch (k) {
        case 0: len = 16 + vh_below(&r, 33); ret = skinny128_set_key(&k128, key, len); skinny128_ecb_encrypt(out, in, &k128); skinny128_ecb_decrypt(out + 16, in, &k128); break;
        case 1: len = 8 + vh_below(&r, 17); ret = skinny64_set_key(&k64, key, len); skinny64_ecb_encrypt(out, in, &k64); skinny64_ecb_decrypt(out + 8, in + 8, &k64); break;
        case 2: len = 16 + vh_below(&r, 17); ret = skinny128_set_tweaked_key(&t128, key, len); ret &= skinny128_set_tweak(&t128, tw, 1 + vh_below(&r, 16));
                skinny128_ecb_encrypt(out, in, &t128.ks); ret &= skinny128_set_tweak(&t128, tw + 3, 1 + vh_below(&r, 13)); skinny128_ecb_encrypt(out + 16, in, &t128.ks); break;
        case 3: len = 8 + vh_below(&r, 9); ret = skinny64_set_tweaked_key(&t64, key, len); ret &= skinny64_set_tweak(&t64, tw, 1 + vh_below(&r, 8));
                skinny64_ecb_encrypt(out, in, &t64.ks); ret &= skinny64_set_tweak(&t64, tw + 3, 1 + vh_below(&r, 8)); skinny64_ecb_encrypt(out + 8, in, &t64.ks); break;
        case 4: ret = mantis_set_key(&mk, key, 16, 5 + vh_below(&r, 4), (int)vh_below(&r, 2)); ret &= mantis_set_tweak(&mk, tw, 8); mantis_ecb_crypt(out, in, &mk);
                mantis_swap_modes(&mk); mantis_ecb_crypt(out + 8, in, &mk); mantis_ecb_crypt_tweaked(out + 16, in + 8, tw + 8, &mk); break;
        default: { const vh_cipher *c = &vh_ciphers[vh_below(&r, CIPH_N)]; vh_handle h; memset(&h, 0, sizeof(h));
                len = c->bb * (1 + vh_below(&r, c->id == 2 ? 1 : 2)) + (c->id == 2 ? c->bb : vh_below(&r, c->bb + 1));
                ret = c->ctr_init(&h); if (ret) { int r2 = c->ctr_set_key(&h, key, len, 7); ret = r2 + 2; if (r2) c->ctr_encrypt(out, in, 16, &h); c->ctr_cleanup(&h); } break; }
        }
        leave_lib();
        ts_ret(t, ret); ts_put(t, out, 32);
    }
}

/* ---------- process-wide state the library has no business changing ---------- */
typedef struct { struct sigaction sa[65]; sigset_t mask; unsigned short fpcw; unsigned mxcsr; } pstate;
static void pstate_take(pstate *p)
{
    int s; memset(p, 0, sizeof(*p));
    for (s = 1; s < 65; ++s) if (s != SIGKILL && s != SIGSTOP && (s < 32 || s > 34)) sigaction(s, NULL, &p->sa[s]);
    pthread_sigmask(SIG_BLOCK, NULL, &p->mask);
    __asm__ volatile("fnstcw %0" : "=m"(p->fpcw));
    __asm__ volatile("stmxcsr %0" : "=m"(p->mxcsr));
}
static const char *pstate_diff(const pstate *a, const pstate *b, int *which)
{
    int s;
    for (s = 1; s < 65; ++s) if (a->sa[s].sa_handler != b->sa[s].sa_handler || a->sa[s].sa_flags != b->sa[s].sa_flags) { *which = s; return "signal-disposition-changed"; }
    if (memcmp(&a->mask, &b->mask, sizeof(a->mask))) { *which = 0; return "signal-mask-changed"; }
    if ((a->mxcsr & 0xFFC0u) != (b->mxcsr & 0xFFC0u) || a->fpcw != b->fpcw) { *which = 0; return "floating-point-control-state-changed"; }
    return NULL;
}

/* ---------- persistent workers (W5): the same threads live through several phases; between phases the main thread re-keys
   (or cleans up and re-creates) the shared read-only objects.  Anything a thread remembers about an object from an earlier
   phase (per-thread caches keyed by address) shows up as output for a stale key. ---------- */
enum { PH_BLOCKS = 24, PH_PHASES = 6 };
static struct { uint8_t in[PH_BLOCKS * 16], tw[PH_BLOCKS * 16]; uint8_t want[CIPH_N][2][PH_BLOCKS * 16], want_sb[3][32]; int bad[NT_MAX]; pthread_barrier_t b; int stop; } PW;
static void *persist_thread(void *p)
{
    int tid = (int)(intptr_t)p, ph, k; uint8_t out[PH_BLOCKS * 16];
    for (ph = 0; ph < PH_PHASES; ++ph) {
        pthread_barrier_wait(&PW.b);                 /* objects are keyed for this phase */
        for (k = 0; k < CIPH_N; ++k) {
            const vh_cipher *c = &vh_ciphers[k]; size_t n = PH_BLOCKS * c->bb;
            enter_lib(tid);
            if (!c->par_encrypt(out, PW.in, PW.tw, n, &SPAR[k]) || memcmp(out, PW.want[k][0], n)) PW.bad[tid]++;
            if (c->par_decrypt && (!c->par_decrypt(out, PW.in, PW.tw, n, &SPAR[k]) || memcmp(out, PW.want[k][1], n))) PW.bad[tid]++;
            leave_lib();
        }
        enter_lib(tid);
        skinny128_ecb_encrypt(out, PW.in, &SK128); skinny128_ecb_decrypt(out + 16, PW.in, &SK128); if (memcmp(out, PW.want_sb[0], 32)) PW.bad[tid]++;
        skinny64_ecb_encrypt(out, PW.in, &SK64); skinny64_ecb_decrypt(out + 8, PW.in, &SK64); if (memcmp(out, PW.want_sb[1], 16)) PW.bad[tid]++;
        mantis_ecb_crypt(out, PW.in, &SMK); mantis_ecb_crypt_tweaked(out + 8, PW.in + 8, PW.tw, &SMK); if (memcmp(out, PW.want_sb[2], 16)) PW.bad[tid]++;
        leave_lib();
        pthread_barrier_wait(&PW.b);                 /* phase done: the main thread may re-key now */
    }
    return NULL;
}
static int run_persistent(uint64_t seed, int cap, pthread_t *th)
{
    vh_rng r; int i, k, ph, bad = 0; uint8_t key[48], tw8[8]; unsigned klen128 = 0, klen64 = 0, rounds = 0; int mode = 0;
    vh_rng_seed(&r, seed, 0x18, 4242);
    memset(&PW, 0, sizeof(PW));
    vh_rand_bytes(&r, PW.in, sizeof(PW.in)); vh_rand_bytes(&r, PW.tw, sizeof(PW.tw));
    pthread_barrier_init(&PW.b, NULL, (unsigned)NT + 1);
    vh_set_cap(cap);
    for (k = 0; k < CIPH_N; ++k) { memset(&SPAR[k], 0, sizeof(SPAR[k])); vh_ciphers[k].par_init(&SPAR[k]); }
    for (i = 0; i < NT; ++i) pthread_create(&th[i], NULL, persist_thread, (void *)(intptr_t)i);
    for (ph = 0; ph < PH_PHASES; ++ph) {
        /* new key material; the key length (= round count) stays the same in most phases so that a stale entry would look valid */
        vh_rand_bytes(&r, key, 48); vh_rand_bytes(&r, tw8, 8);
        if (ph == 0 || !vh_below(&r, 4)) { klen128 = 16 * (1 + vh_below(&r, 3)); klen64 = 8 * (1 + vh_below(&r, 3)); rounds = 5 + vh_below(&r, 4); mode = (int)vh_below(&r, 2); }
        if (ph && !vh_below(&r, 3)) for (k = 0; k < CIPH_N; ++k) { vh_ciphers[k].par_cleanup(&SPAR[k]); vh_ciphers[k].par_init(&SPAR[k]); }   /* same address, new object */
        vh_ciphers[CIPH_S128].par_set_key(&SPAR[CIPH_S128], key, klen128, 0, 0);
        vh_ciphers[CIPH_S64].par_set_key(&SPAR[CIPH_S64], key, klen64, 0, 0);
        vh_ciphers[CIPH_MANTIS].par_set_key(&SPAR[CIPH_MANTIS], key, 16, rounds, mode ? MANTIS_ENCRYPT : MANTIS_DECRYPT);
        skinny128_set_key(&SK128, key, klen128); skinny64_set_key(&SK64, key, klen64);
        mantis_set_key(&SMK, key, 16, rounds, mode ? MANTIS_ENCRYPT : MANTIS_DECRYPT); mantis_set_tweak(&SMK, tw8, 8);
        /* expected results from the single-block functions under schedules made from scratch */
        { Skinny128Key_t a; Skinny64Key_t b; MantisKey_t m; int q;
          skinny128_set_key(&a, key, klen128); skinny64_set_key(&b, key, klen64); mantis_set_key(&m, key, 16, rounds, mode ? MANTIS_ENCRYPT : MANTIS_DECRYPT);
          for (q = 0; q < PH_BLOCKS; ++q) {
              skinny128_ecb_encrypt(PW.want[CIPH_S128][0] + 16 * q, PW.in + 16 * q, &a); skinny128_ecb_decrypt(PW.want[CIPH_S128][1] + 16 * q, PW.in + 16 * q, &a);
              skinny64_ecb_encrypt(PW.want[CIPH_S64][0] + 8 * q, PW.in + 8 * q, &b); skinny64_ecb_decrypt(PW.want[CIPH_S64][1] + 8 * q, PW.in + 8 * q, &b);
              mantis_ecb_crypt_tweaked(PW.want[CIPH_MANTIS][0] + 8 * q, PW.in + 8 * q, PW.tw + 8 * q, &m);
          }
          skinny128_ecb_encrypt(PW.want_sb[0], PW.in, &a); skinny128_ecb_decrypt(PW.want_sb[0] + 16, PW.in, &a);
          skinny64_ecb_encrypt(PW.want_sb[1], PW.in, &b); skinny64_ecb_decrypt(PW.want_sb[1] + 8, PW.in, &b);
          mantis_set_tweak(&m, tw8, 8); mantis_ecb_crypt(PW.want_sb[2], PW.in, &m); mantis_ecb_crypt_tweaked(PW.want_sb[2] + 8, PW.in + 8, PW.tw, &m);
        }
        pthread_barrier_wait(&PW.b);
        pthread_barrier_wait(&PW.b);
    }
    for (i = 0; i < NT; ++i) { pthread_join(th[i], NULL); bad += PW.bad[i]; }
    for (k = 0; k < CIPH_N; ++k) vh_ciphers[k].par_cleanup(&SPAR[k]);
    pthread_barrier_destroy(&PW.b);
    return bad;
}

/* ---------- orchestration ---------- */
/* ---------- lock-free pipeline: a library output is handed to another thread by release/acquire atomics only ----------
   Producer (objects A: parallel-ECB and CTR) writes X with one large library call and publishes it with a release store
   (a plain store on x86: no locked instruction, no fence, no system call between the library's return and the store).
   Consumer acquires, processes the trailer of X with its own object B first, then hashes all of X.  The program is
   data-race free, so the consumer must see exactly what the sequential execution gives (computed beforehand with the same
   objects re-keyed).  A library that leaves output bytes in flight when it returns (weakly ordered / non-temporal stores
   without a fence, deferred writes) is only visible this way: join/mutex hand-overs contain fences. */
#define PL_ROUNDS 24
#define PL_MAXN ((size_t)1 << 20)
static struct { const vh_cipher *c; vh_handle pa, ca, pb; uint8_t *xbase, *src[2], *tw; size_t n[PL_ROUNDS], off[PL_ROUNDS]; int op[PL_ROUNDS];
                uint64_t got[PL_ROUNDS], want[PL_ROUNDS]; unsigned ready, ack; int rets; } PL;
static void pl_produce(int i)
{
    uint8_t *x = PL.xbase + PL.off[i]; const uint8_t *in = PL.src[i & 1]; int r;
    switch (PL.op[i]) {
    case 0: r = PL.c->par_encrypt(x, in, PL.tw, PL.n[i], &PL.pa); break;
    case 1: r = (PL.c->par_decrypt ? PL.c->par_decrypt : PL.c->par_encrypt)(x, in, PL.tw, PL.n[i], &PL.pa); break;
    default: r = PL.c->ctr_encrypt(x, in, PL.n[i], &PL.ca); break;
    }
    PL.rets += r;
}
static uint64_t pl_consume(int i)
{
    const uint8_t *x = PL.xbase + PL.off[i]; uint8_t y[256]; uint64_t h; size_t tail = PL.n[i] < 256 ? PL.n[i] : 256;
    tail -= tail % PL.c->bb;
    PL.c->par_encrypt(y, x + PL.n[i] - tail, PL.tw, tail, &PL.pb);           /* the trailer first: the last lines written */
    h = vh_hash(y, tail, VH_HASH_INIT);
    h = vh_hash(x + PL.n[i] - tail, tail, h);
    return vh_hash(x, PL.n[i], h);
}
static void *pl_stage1(void *p)
{
    unsigned i; (void)p;
    for (i = 1; i <= PL_ROUNDS; ++i) {
        unsigned long spins = 0;
        while (__atomic_load_n(&PL.ack, __ATOMIC_ACQUIRE) != i - 1) if ((++spins & 1023) == 0) sched_yield();
        pl_produce((int)i - 1);
        __atomic_store_n(&PL.ready, i, __ATOMIC_RELEASE);
    }
    return NULL;
}
static void *pl_stage2(void *p)
{
    unsigned i; (void)p;
    for (i = 1; i <= PL_ROUNDS; ++i) {
        unsigned long spins = 0;
        while (__atomic_load_n(&PL.ready, __ATOMIC_ACQUIRE) != i) if ((++spins & 1023) == 0) sched_yield();
        PL.got[i - 1] = pl_consume((int)i - 1);
        __atomic_store_n(&PL.ack, i, __ATOMIC_RELEASE);
    }
    return NULL;
}
static void pl_key(vh_rng *r0)
{
    vh_rng r = *r0; uint8_t key[16], ctr[16];
    vh_rand_bytes(&r, key, 16); vh_rand_bytes(&r, ctr, 16);
    PL.c->par_set_key(&PL.pa, key, 16, 7, 1); PL.c->ctr_set_key(&PL.ca, key, 16, 7); PL.c->ctr_set_counter(&PL.ca, ctr, PL.c->bb);
    vh_rand_bytes(&r, key, 16); PL.c->par_set_key(&PL.pb, key, 16, 6, 1);
}
static int run_pipeline(uint64_t rep, int cap, char *detail, size_t dn)
{
    vh_rng r, rk; int i, bad = 0; pthread_t t1, t2; size_t k;
    static const size_t offs[8] = {0, 32, 64, 96, 16, 48, 8, 1};
    vh_rng_seed(&r, vh_seed, 0x1B, rep);
    PL.c = &vh_ciphers[rep % CIPH_N];
    if (!PL.xbase) { PL.xbase = aligned_alloc(4096, PL_MAXN + 4096); PL.src[0] = aligned_alloc(4096, PL_MAXN + 4096); PL.src[1] = aligned_alloc(4096, PL_MAXN + 4096); PL.tw = aligned_alloc(4096, PL_MAXN + 4096); }
    vh_rand_bytes(&r, PL.src[0], 4096); vh_rand_bytes(&r, PL.src[1], 4096); vh_rand_bytes(&r, PL.tw, 4096);
    for (k = 4096; k < PL_MAXN; ++k) { PL.src[0][k] = (uint8_t)(PL.src[0][k - 4096] + 3); PL.src[1][k] = (uint8_t)(PL.src[1][k - 4096] + 7); PL.tw[k] = (uint8_t)(PL.tw[k - 4096] + 11); }
    for (i = 0; i < PL_ROUNDS; ++i) {
        size_t n = (i % 3 == 0) ? ((size_t)262144 << vh_below(&r, 3)) : 65536 + 32 * (size_t)vh_below(&r, 28000);
        PL.off[i] = vh_below(&r, 4) ? offs[vh_below(&r, 4)] : offs[vh_below(&r, 8)];
        if (vh_below(&r, 3) == 0) n -= 32 * (1 + vh_below(&r, 3));             /* buffer ends in the middle of a cache line */
        if (n + PL.off[i] > PL_MAXN) n = PL_MAXN - 128;
        PL.n[i] = n; PL.op[i] = (int)vh_below(&r, 3);
    }
    memset(&PL.pa, 0, sizeof(PL.pa)); memset(&PL.ca, 0, sizeof(PL.ca)); memset(&PL.pb, 0, sizeof(PL.pb));
    vh_set_cap(cap);
    if (!PL.c->par_init(&PL.pa) || !PL.c->ctr_init(&PL.ca) || !PL.c->par_init(&PL.pb)) return -1;
    rk = r; pl_key(&rk); PL.rets = 0;
    for (i = 0; i < PL_ROUNDS; ++i) { pl_produce(i); PL.want[i] = pl_consume(i); }      /* sequential execution */
    { int wr = PL.rets; memset(PL.xbase, 0xA5, PL_MAXN + 4096);
      rk = r; pl_key(&rk); PL.rets = 0; PL.ready = PL.ack = 0;
      pthread_create(&t2, NULL, pl_stage2, NULL); pthread_create(&t1, NULL, pl_stage1, NULL);
      pthread_join(t1, NULL); pthread_join(t2, NULL);
      if (PL.rets != wr) bad++; }
    for (i = 0; i < PL_ROUNDS; ++i) if (PL.got[i] != PL.want[i]) { if (!bad) snprintf(detail, dn, "{\"cipher\":\"%s\",\"repetition\":%llu,\"backend_cap\":%d,\"round\":%d,\"op\":%d,\"bytes\":%lu,\"output_offset_mod_4096\":%lu}", PL.c->name, (unsigned long long)rep, cap, i, PL.op[i], (unsigned long)PL.n[i], (unsigned long)PL.off[i]); bad++; }
    VH_COUNT("pipeline_handovers_release_acquire", PL_ROUNDS); { uint64_t tot = 0; for (i = 0; i < PL_ROUNDS; ++i) tot += PL.n[i]; VH_COUNT("pipeline_bytes_handed_over", tot); }
    PL.c->par_cleanup(&PL.pa); PL.c->ctr_cleanup(&PL.ca); PL.c->par_cleanup(&PL.pb);
    return bad;
}

typedef struct { int tid; uint64_t seed; int workload; int bulk; chist *ch; phist *ph; tscript got, want; vh_rng yr; } targ;
static targ TA[NT_MAX];

static void work(targ *a, tscript *t, int threaded)
{
    vh_rng *yr = threaded ? &a->yr : NULL;
    switch (a->workload) {
    case 0: run_ctr(a->ch, t, a->tid, yr); run_par(a->ph, t, a->tid, yr); if (a->bulk) run_bulk(a->seed, t, a->tid, yr, 0); break;
    case 1: run_shared(a->seed, t, a->tid, yr); if (a->bulk) run_bulk(a->seed + (uint64_t)a->tid * 7919, t, a->tid, yr, 1); break;
    case 2: run_storm(a->seed, t, a->tid, yr); break;
    default: run_keys(a->seed, t, a->tid, yr); break;
    }
}
static void *thread_main(void *p)
{
    targ *a = p;
    pthread_barrier_wait(&bar);
    work(a, &a->got, 1);
    return NULL;
}

/* positive control: an unsynchronised counter */
static volatile long racy;
static void *race_thread(void *p) { int i; (void)p; pthread_barrier_wait(&bar); for (i = 0; i < 20000; ++i) racy++; return NULL; }

int main(int argc, char **argv)
{
    uint64_t rep, reps; int i, control;
    pthread_t th[NT_MAX];
    static const char *const wname[5] = {"distinct-objects", "shared-read-only-objects", "init-cleanup-storm", "key-setup-storm", "persistent-workers-with-rekeying"};
    pstate ps0, ps1;
    vh_init(argc, argv);
    NT = atoi(vh_getarg("threads", "16")); if (NT > NT_MAX) NT = NT_MAX;
    control = atoi(vh_getarg("control", "0"));
    reps = vh_cases;
    if (control) {
        pthread_barrier_init(&bar, NULL, 2);
        pthread_create(&th[0], NULL, race_thread, NULL); pthread_create(&th[1], NULL, race_thread, NULL);
        pthread_join(th[0], NULL); pthread_join(th[1], NULL);
        printf("{\"type\":\"control\",\"racy\":%ld}\n", racy);
        return 0;
    }
    if (!strcmp(vh_arg_mode, "first-init")) {
        /* The very first library calls of this process are made concurrently: nothing (not even the back-end
           probe) has run before the threads are released, so one-time initialisation of any hidden global
           state happens under contention.  All threads do identical work, so their transcripts must be
           identical to each other and to the same work repeated sequentially afterwards. */
        int bad = 0;
        for (i = 0; i < NT; ++i) { TA[i].tid = i; TA[i].workload = 2; TA[i].seed = vh_seed * 977 + 5; TA[i].got.cap = TA[i].want.cap = 1 << 16; TA[i].got.out = malloc(1 << 16); TA[i].want.out = malloc(1 << 16);
                                   TA[i].got.n = TA[i].want.n = 0; TA[i].got.rets = TA[i].want.rets = 0; TA[i].got.nret = TA[i].want.nret = 0; vh_rng_seed(&TA[i].yr, vh_seed, 0x1A, (uint64_t)i); }
        pstate_take(&ps0);
        pthread_barrier_init(&bar, NULL, (unsigned)NT);
        for (i = 0; i < NT; ++i) pthread_create(&th[i], NULL, thread_main, &TA[i]);
        for (i = 0; i < NT; ++i) pthread_join(th[i], NULL);
        pstate_take(&ps1);
        { int which = 0; const char *pd = pstate_diff(&ps0, &ps1, &which);
          if (pd) { char key[160], d[120]; snprintf(key, sizeof(key), "C18:first-concurrent-init:process-%s", pd); snprintf(d, sizeof(d), "{\"signal\":%d}", which); vh_violation(key, d, d); } }
        work(&TA[0], &TA[0].want, 0);
        for (i = 0; i < NT; ++i) {
            if (TA[i].got.n != TA[0].want.n || TA[i].got.rets != TA[0].want.rets || memcmp(TA[i].got.out, TA[0].want.out, TA[i].got.n)) bad++;
            VH_COUNT("thread_runs", 1); VH_COUNT("library_calls_in_threads", TA[i].got.nret);
        }
        if (bad) {
            char d[200]; snprintf(d, sizeof(d), "{\"workload\":\"first-init\",\"threads_differing_from_sequential\":%d,\"threads\":%d}", bad, NT);
            vh_violation("C18:first-concurrent-init:thread-result-differs-from-sequential", d, d);
        }
        if (vh_distinct(vh_seed * 31 + 7)) VH_COUNT("distinct_nontrivial_repetitions", 1);
        VH_COUNT("repetitions_first-concurrent-init", 1);
        VH_MAXC("max_threads_simultaneously_inside_library_calls", in_lib_max);
        *vh_counter_ref("max_threads") = (uint64_t)NT;
        vh_finish();
        return 0;
    }
    if (!strcmp(vh_arg_mode, "pipeline")) {
        for (rep = vh_first + vh_shard; rep < vh_first + reps; rep += vh_nshards) {
            char d[300] = ""; int cap = (int)((rep / CIPH_N) % 3), nb;
            nb = run_pipeline(rep, cap, d, sizeof(d));
            if (nb < 0) { printf("{\"type\":\"inconclusive\",\"reason\":\"pipeline objects could not be initialised\"}\n"); return 2; }
            if (nb) { vh_sh->cur_case = rep; vh_violation("C18:lock-free-pipeline:consumer-result-differs-from-sequential", d, d); }
            if (vh_distinct(rep * 0x9E3779B97F4A7C15ull + vh_seed)) VH_COUNT("distinct_nontrivial_repetitions", 1);
            VH_COUNT("repetitions_lock-free-pipeline", 1); VH_COUNT("thread_runs", 2);
        }
        vh_finish();
        return 0;
    }
    for (i = 0; i < CIPH_N; ++i) { maxbe[i] = vh_max_backend(&vh_ciphers[i]); if (maxbe[i] < 0) { printf("{\"type\":\"inconclusive\",\"reason\":\"cannot identify back end\"}\n"); return 2; } }
    for (i = 0; i < NT; ++i) { TA[i].ch = malloc(sizeof(chist)); TA[i].ph = malloc(sizeof(phist)); TA[i].got.cap = TA[i].want.cap = 1 << 18; TA[i].got.out = malloc(1 << 18); TA[i].want.out = malloc(1 << 18); }
    for (rep = vh_first + vh_shard; rep < vh_first + reps; rep += vh_nshards) {
        int workload = (int)(rep % 5), cap = (int)((rep / 5) % 3);
        vh_rng r; uint64_t hh = VH_HASH_INIT;
        vh_rng_seed(&r, vh_seed, 0x18, rep);
        vh_set_cap(cap);                                   /* written only here, before the threads exist */
        pstate_take(&ps0);
        if (workload == 4) {
            int nb; in_lib = 0; ticket = 0; memset(order_log, 0xFF, sizeof(order_log));
            hh ^= rep * 977 + vh_seed;
            nb = run_persistent(vh_rand(&r), cap, th);
            VH_COUNT("thread_runs", NT); VH_COUNT("rekey_phases_with_live_worker_threads", PH_PHASES);
            if (nb) {
                char d[200]; snprintf(d, sizeof(d), "{\"workload\":\"%s\",\"repetition\":%llu,\"backend_cap\":%d,\"wrong_results\":%d}", wname[4], (unsigned long long)rep, cap, nb);
                vh_sh->cur_case = rep; vh_violation("C18:persistent-workers-with-rekeying:thread-result-differs-from-sequential", d, d);
            }
            goto rep_done;
        }
        if (workload == 1) {
            uint8_t key[48], tw[16];
            vh_rand_bytes(&r, key, 48); vh_rand_bytes(&r, tw, 16);
            skinny128_set_key(&SK128, key, 16 * (1 + vh_below(&r, 3))); skinny64_set_key(&SK64, key, 8 * (1 + vh_below(&r, 3)));
            skinny128_set_tweaked_key(&STK128, key, 32); skinny128_set_tweak(&STK128, tw, 16);
            skinny64_set_tweaked_key(&STK64, key, 16); skinny64_set_tweak(&STK64, tw, 8);
            mantis_set_key(&SMK, key, 16, 5 + vh_below(&r, 4), (int)vh_below(&r, 2)); mantis_set_tweak(&SMK, tw, 8);
            for (i = 0; i < CIPH_N; ++i) { memset(&SPAR[i], 0, sizeof(SPAR[i])); vh_ciphers[i].par_init(&SPAR[i]); vh_ciphers[i].par_set_key(&SPAR[i], key, 16, 6, 1); }
        }
        for (i = 0; i < NT; ++i) {
            targ *a = &TA[i];
            a->tid = i; a->workload = workload; a->seed = vh_rand(&r); a->bulk = (workload < 2 && (rep / 5) % 4 == 0);    /* W1/W2 add requests of 64 KiB .. 260 KiB in every fourth block of five repetitions (walks through all back-end caps) */
            if (workload == 1) a->seed = vh_seed * 131 + rep;      /* all threads do the same reads on the shared objects with private buffers */
            vh_rng_seed(&a->yr, a->seed, 0x19, (uint64_t)i);
            if (workload == 0) {
                chist_gen(a->ch, &vh_ciphers[vh_below(&r, CIPH_N)], &r, G_SMALL | G_INBETWEEN_KEYS | G_REKEY_MID | G_LIFECYCLE | G_INVALID);
                phist_gen(a->ph, &vh_ciphers[vh_below(&r, CIPH_N)], &r, G_SMALL | G_INBETWEEN_KEYS | G_LIFECYCLE | G_INVALID);
                hh ^= chist_hash(a->ch) + phist_hash(a->ph) * 3;
            } else hh ^= a->seed * (uint64_t)(i + 1);
            a->got.n = a->want.n = 0; a->got.rets = a->want.rets = 0; a->got.nret = a->want.nret = 0;
            work(a, &a->want, 0);                           /* sequential pre-computation */
        }
        in_lib = 0; ticket = 0; memset(order_log, 0xFF, sizeof(order_log));
        pthread_barrier_init(&bar, NULL, (unsigned)NT);
        for (i = 0; i < NT; ++i) pthread_create(&th[i], NULL, thread_main, &TA[i]);
        for (i = 0; i < NT; ++i) pthread_join(th[i], NULL);
        pthread_barrier_destroy(&bar);
        if (workload == 1) for (i = 0; i < CIPH_N; ++i) vh_ciphers[i].par_cleanup(&SPAR[i]);
        for (i = 0; i < NT; ++i) {
            targ *a = &TA[i];
            VH_COUNT("thread_runs", 1); VH_COUNT("library_calls_in_threads", a->got.nret);
            if (a->got.n != a->want.n || a->got.rets != a->want.rets || memcmp(a->got.out, a->want.out, a->got.n)) {
                char key[200], d[300];
                snprintf(key, sizeof(key), "C18:%s:thread-result-differs-from-sequential", wname[workload]);
                snprintf(d, sizeof(d), "{\"workload\":\"%s\",\"repetition\":%llu,\"thread\":%d,\"backend_cap\":%d,\"bytes\":[%lu,%lu]}", wname[workload], (unsigned long long)rep, i, cap, (unsigned long)a->got.n, (unsigned long)a->want.n);
                vh_sh->cur_case = rep;
                vh_violation(key, d, d);
            }
        }
    rep_done:
        pstate_take(&ps1);
        { int which = 0; const char *pd = pstate_diff(&ps0, &ps1, &which);
          VH_COUNT("process_state_snapshots_compared", 1);
          if (pd) { char key[160], d[200]; snprintf(key, sizeof(key), "C18:%s:process-%s", wname[workload], pd); snprintf(d, sizeof(d), "{\"workload\":\"%s\",\"repetition\":%llu,\"signal\":%d}", wname[workload], (unsigned long long)rep, which); vh_sh->cur_case = rep; vh_violation(key, d, d); } }
        { uint64_t s = vh_hash(order_log, 48, VH_HASH_INIT); int k, found = 0; for (k = 0; k < sig_n; ++k) if (sig_set[k] == s) found = 1; if (!found && sig_n < 4096) sig_set[sig_n++] = s; }
        if (vh_distinct(hh)) VH_COUNT("distinct_nontrivial_repetitions", 1);
        { char cn[64]; snprintf(cn, sizeof(cn), "repetitions_%s", wname[workload]); *vh_counter_ref(cn) += 1; }
        VH_MAXC("max_threads_simultaneously_inside_library_calls", in_lib_max);
        if (vh_want_sample()) { char s[300]; snprintf(s, sizeof(s), "{\"workload\":\"%s\",\"threads\":%d,\"backend_cap\":%d,\"first_calls_by_thread\":[%d,%d,%d,%d,%d,%d,%d,%d,%d,%d,%d,%d]}", wname[workload], NT, cap,
            order_log[0], order_log[1], order_log[2], order_log[3], order_log[4], order_log[5], order_log[6], order_log[7], order_log[8], order_log[9], order_log[10], order_log[11]); vh_sample(s); }
    }
    *vh_counter_ref("distinct_interleaving_signatures_of_first_48_calls") = (uint64_t)sig_n;
    *vh_counter_ref("max_threads") = (uint64_t)NT;
    vh_finish();
    return 0;
}
