/* Driver for the life-cycle properties, built with the allocator monitor.
 *   --prop C15 --mode c15 : interleaved life-cycle histories on 1..8 objects; allocator event log checked for
 *                           conservation / exactly-once / no events on inert objects; freed blocks quarantined PROT_NONE
 *   --prop C17 --mode c17 : same machinery, histories that make every field non-zero; blocks scanned at free()
 *   --prop C16 --mode c16 : enumerated allocation failures in every init function x back end x prior handle contents
 */
#include "hist.h"
#include "allocmon.h"
#include <string.h>
#include <stdlib.h>
#include <sys/mman.h>

static const char *prop = "C15";
static int maxbe[CIPH_N];

#define MAXOBJ 8
static chist CH[MAXOBJ];
static phist PH[MAXOBJ];
static ctrans TR[MAXOBJ];
static vh_obj OB[MAXOBJ], OB2[MAXOBJ], *CUR[MAXOBJ];      /* CUR[j]: where object j's control block currently lives (it is moved now and then) */
static int is_par[MAXOBJ], pos[MAXOBJ];

static int ro_guard;           /* --prop C18: parallel-ECB state is PROT_READ while encrypt/decrypt/crypt run */
static int ro_active = -1;

static int describe_fault(const void *addr, char *buf, size_t n)
{
    int b; long off; const am_block *bl; int nb;
    if (!am_in_arena(addr, &b, &off)) return 0;
    bl = am_blocks(&nb);
    snprintf(buf, n, "access to allocator-monitor block #%d (size %lu, object %d, %s) at offset %ld", b, (unsigned long)bl[b].size, bl[b].obj,
             bl[b].live ? (ro_active == bl[b].obj ? "live and PROT_READ during a read-only call: the call WROTE to the shared object state" : "live: beyond its end / guard page") : "FREED and quarantined: use after free", off);
    return 1;
}

static void pre_hook(vh_obj *ob, int is_cleanup, int opi)
{
    am_mark(ob->id, opi);
    vh_set_cap(ob->cap);
    if (is_cleanup && ob->live) am_nonzero_live(ob->id);
    if (ro_guard && ob->id >= 0 && ob->id < MAXOBJ && is_par[ob->id] && ob->live && opi >= 0) {
        int k = PH[ob->id].ops[opi].kind;
        if ((k == P_ENCRYPT || k == P_DECRYPT) && !(PH[ob->id].ops[opi].flags & F_NULL_OBJ)) { am_protect_obj(ob->id, 1); ro_active = ob->id; VH_COUNT("parallel_calls_with_read_only_object_state", 1); }
    }
}
static void post_hook(vh_obj *ob, int opi)
{
    (void)ob; (void)opi;
    if (ro_active >= 0) { am_protect_obj(ro_active, 0); ro_active = -1; }
}

static void viol(const char *key, uint64_t idx, const char *detail)
{
    vh_sb rp; sb_init(&rp);
    sb_printf(&rp, "{\"driver\":\"drv_life\",\"prop\":\"%s\",\"mode\":\"%s\",\"seed\":%llu,\"case\":%llu,\"variant\":\"%s\",\"case_detail\":%s}",
              prop, vh_arg_mode, (unsigned long long)vh_seed, (unsigned long long)idx, vh_variant, detail);
    vh_violation(key, detail, rp.p);
    sb_free(&rp);
}

static const char *objname(int j, char *buf, size_t n)
{
    const vh_cipher *c = is_par[j] ? PH[j].c : CH[j].c;
    snprintf(buf, n, "%s%s:%s", c->name, is_par[j] ? "-parallel" : "", vh_backend_names[OB[j].cap]);
    return buf;
}

/* ---------------------------------------------------------------- C15 / C17 */
static void life_case(uint64_t idx)
{
    vh_rng r; int K, j, remaining = 0, wipe_mode = !strcmp(vh_arg_mode, "c17"), storm = 0;
    unsigned g = G_SMALL | G_MISALIGN | (wipe_mode ? 0 : (G_LIFECYCLE | G_INVALID | G_UNKEYED | G_REKEY_MID));
    char d[256], nm[96];
    vh_rng_seed(&r, vh_seed, 0x15, idx);
    snprintf(d, sizeof(d), "{\"driver\":\"drv_life\",\"prop\":\"%s\",\"mode\":\"%s\",\"seed\":%llu,\"case\":%llu,\"variant\":\"%s\"}", prop, vh_arg_mode,
             (unsigned long long)vh_seed, (unsigned long long)idx, vh_variant);
    vh_case_begin(idx, prop, d);
    am_release_all(); am_hard_reset();
    K = 1 + (int)vh_below(&r, wipe_mode ? 3 : MAXOBJ);
    if (!wipe_mode && idx % 40 == 7) storm = 1;
    {
        uint64_t hh = VH_HASH_INIT;
        for (j = 0; j < K; ++j) {
            const vh_cipher *c = &vh_ciphers[wipe_mode ? (idx + (uint64_t)j) % CIPH_N : vh_below(&r, CIPH_N)];
            is_par[j] = wipe_mode ? (int)((idx / 3 + (uint64_t)j) & 1) : (int)vh_below(&r, 2);
            memset(&OB[j], 0, sizeof(OB[j])); memset(&OB2[j], 0xA5, sizeof(OB2[j])); CUR[j] = &OB[j];
            OB[j].id = j; OB[j].cap = wipe_mode ? (int)((idx / 6) % (uint64_t)(maxbe[c->id] + 1)) : (int)vh_below(&r, (uint32_t)maxbe[c->id] + 1);
            if (is_par[j]) { phist_gen(&PH[j], c, &r, g); hh ^= phist_hash(&PH[j]) * (uint64_t)(j + 3); }
            else { chist_gen(&CH[j], c, &r, g); hh ^= chist_hash(&CH[j]) * (uint64_t)(j + 3); }
            ctrans_reset(&TR[j]); pos[j] = 0;
            remaining += is_par[j] ? PH[j].n : CH[j].n;
            VH_COUNT("objects", 1);
        }
        if (vh_distinct(hh) && remaining > 2) VH_COUNT("distinct_nontrivial_cases", 1);
    }
    if (vh_want_sample()) {
        vh_sb s; sb_init(&s); sb_printf(&s, "{\"objects\":%d,\"first_object\":\"%s\",\"first_history\":", K, objname(0, nm, sizeof(nm)));
        if (is_par[0]) phist_json(&PH[0], &s); else chist_json(&CH[0], &s);
        sb_printf(&s, "}"); vh_sample(s.p); sb_free(&s);
    }
    am_reset();
    /* one case in four runs on an allocator that only guarantees 8-byte alignment (blocks start at 8 or 24 modulo 32), as on
       32-bit ABIs: the library's own over-allocation and rounding must still keep every context inside its block */
    am_set_min_align((idx & 3) == 1 ? 8 : 16);
    if ((idx & 3) == 1) VH_COUNT("cases_on_weakly_aligned_allocator", 1);
    /* interleave */
    while (remaining > 0) {
        char pfx[160];
        j = (int)vh_below(&r, (uint32_t)K);
        while (pos[j] >= (is_par[j] ? PH[j].n : CH[j].n)) j = (j + 1) % K;
        snprintf(pfx, sizeof(pfx), "%s:%s", prop, objname(j, nm, sizeof(nm)));
        if (!vh_below(&r, 8)) {
            /* the caller moves the control block (a plain struct of pointers: array growth, sorting, return by value): the
               bytes go to a new address, the old place is overwritten; the object must not care where its handle lives */
            vh_obj *src = CUR[j], *dst = (src == &OB[j]) ? &OB2[j] : &OB[j];
            *dst = *src; memset(&src->H, 0xA5, sizeof(src->H)); CUR[j] = dst; VH_COUNT("control_block_relocations", 1);
        }
        if (is_par[j]) phist_exec(&PH[j], pos[j], CUR[j], &TR[j], pfx); else chist_exec(&CH[j], pos[j], CUR[j], &TR[j], pfx);
        pos[j]++; remaining--;
        VH_COUNT("api_calls", 1);
    }
    if (storm) {
        /* many init/cleanup rounds on one handle: live-block count must return to zero each time */
        const vh_cipher *c = &vh_ciphers[vh_below(&r, CIPH_N)];
        vh_obj ob; int k, par = (int)vh_below(&r, 2), base_live = am_live_blocks();   /* blocks leaked earlier in this case are reported by the log checker, not here */
        memset(&ob, 0, sizeof(ob)); ob.id = 50; ob.cap = (int)vh_below(&r, (uint32_t)maxbe[c->id] + 1);
        vh_set_crash_key("C15:init-cleanup-loop");
        for (k = 0; k < 400; ++k) {
            int ret;
            am_mark(50, k); vh_set_cap(ob.cap);
            vh_call_begin("init(loop)"); ret = par ? c->par_init(&ob.H) : c->ctr_init(&ob.H); vh_call_end();
            if (ret && !par && (k & 1)) { uint8_t key[16] = {1}; c->ctr_set_key(&ob.H, key, 16, 7); }
            vh_call_begin("cleanup(loop)"); if (par) c->par_cleanup(&ob.H); else c->ctr_cleanup(&ob.H); vh_call_end();
            if (am_live_blocks() != base_live) {
                snprintf(d, sizeof(d), "{\"loop_iteration\":%d,\"live_blocks\":%d}", k, am_live_blocks() - base_live);
                snprintf(nm, sizeof(nm), "C15:%s%s:%s:leak-in-init-cleanup-loop", c->name, par ? "-parallel" : "", vh_backend_names[ob.cap]);
                viol(nm, idx, d); break;
            }
            if (k % 100 == 99 && base_live == 0) { am_release_all(); am_hard_reset(); }
        }
        VH_COUNT("init_cleanup_loop_rounds", k);
    }
    if (!wipe_mode && idx % 40 == 23) {
        /* several hundred objects alive at once, each keyed differently; every one must still produce its own stream */
        enum { NOBJ = 300 };
        static vh_handle HS[NOBJ]; static uint8_t KS[NOBJ][16];
        const vh_cipher *c = &vh_ciphers[vh_below(&r, CIPH_N)]; int k, bad = -1; uint8_t z[16] = {0}, o1[16], e1[16], cb[16] = {0};
        vh_set_crash_key("C15:many-objects-alive");
        am_mark(60, 0); vh_set_cap((int)vh_below(&r, (uint32_t)maxbe[c->id] + 1));
        for (k = 0; k < NOBJ; ++k) { memset(&HS[k], 0, sizeof(HS[k])); vh_rand_bytes(&r, KS[k], 16); vh_call_begin("init(many)"); c->ctr_init(&HS[k]); c->ctr_set_key(&HS[k], KS[k], 16, 7); vh_call_end(); }
        for (k = NOBJ - 1; k >= 0; --k) {
            vh_call_begin("encrypt(many)"); c->ctr_encrypt(o1, z, c->bb, &HS[k]); vh_call_end();
            if (c->id == CIPH_MANTIS) ref_mantis_encrypt(7, KS[k], NULL, cb, e1); else ref_skinny_key_crypt(c->bb, KS[k], 16, 0, cb, e1);
            if (memcmp(o1, e1, c->bb) && bad < 0) bad = k;
        }
        for (k = 0; k < NOBJ; ++k) { vh_call_begin("cleanup(many)"); c->ctr_cleanup(&HS[k]); vh_call_end(); }
        VH_COUNT("many_objects_alive_rounds", 1); VH_MAXC("max_objects_alive_at_once", NOBJ);
        if (bad >= 0) { snprintf(d, sizeof(d), "{\"objects_alive\":%d,\"first_wrong_object\":%d,\"cipher\":\"%s\"}", NOBJ, bad, c->name); snprintf(nm, sizeof(nm), "C15:%s:object-affected-by-other-live-objects", c->name); viol(nm, idx, d); }
    }
    if (wipe_mode && idx % 25 == 11) {
        /* a couple of hundred objects of all kinds alive at once (all keyed, all used), then cleaned up in a scrambled order:
           every block released on the way is scanned at its free() like any other */
        enum { NMANY = 220 };
        static vh_handle HM[NMANY]; static uint8_t kindm[NMANY];
        int k, be = (int)((idx / 25) % 3); uint8_t key[48], buf[160];
        const vh_cipher *c0 = &vh_ciphers[(idx / 75) % CIPH_N];
        memset(key, 0xFF, sizeof(key)); memset(buf, 0x5C, sizeof(buf));
        am_mark(MAXOBJ - 1, -1); is_par[MAXOBJ - 1] = 0; OB[MAXOBJ - 1].cap = be > maxbe[c0->id] ? maxbe[c0->id] : be; OB[MAXOBJ - 1].id = MAXOBJ - 1; CH[MAXOBJ - 1].c = c0;
        if (K < MAXOBJ) K = MAXOBJ;
        vh_set_crash_key("C17:many-objects-alive");
        vh_call_begin("many objects alive");
        for (k = 0; k < NMANY; ++k) {
            const vh_cipher *c = (k % 4 == 3) ? &vh_ciphers[k % CIPH_N] : c0; int par = (k % 7 == 5);
            kindm[k] = (uint8_t)(c->id * 2 + par); memset(&HM[k], 0, sizeof(HM[k]));
            vh_set_cap(be > maxbe[c->id] ? maxbe[c->id] : be);
            if (par) { c->par_init(&HM[k]); c->par_set_key(&HM[k], key, 16, 8, MANTIS_ENCRYPT); c->par_encrypt(buf, buf, buf + 80, 3 * c->bb, &HM[k]); }
            else { c->ctr_init(&HM[k]); c->ctr_set_key(&HM[k], key, 16, 8); c->ctr_set_counter(&HM[k], key, c->bb); c->ctr_encrypt(buf, buf, 37, &HM[k]); }
        }
        vh_call_end();
        am_nonzero_live(MAXOBJ - 1);
        vh_call_begin("cleanup of many objects");
        for (k = 0; k < NMANY; ++k) { int q = (k * 97) % NMANY; const vh_cipher *c = &vh_ciphers[kindm[q] / 2]; if (kindm[q] & 1) c->par_cleanup(&HM[q]); else c->ctr_cleanup(&HM[q]); }
        vh_call_end();
        VH_COUNT("many_objects_alive_rounds", 1); VH_MAXC("max_objects_alive_at_once", NMANY);
    }
    if (wipe_mode && idx % 25 == 3) {
        /* bulk usage: requests of 64 KiB..300 KiB that grow, then thousands of small requests, then cleanup:
           any scratch memory the library allocates, resizes or drops on the way is scanned at its free() as well */
        const vh_cipher *c = &vh_ciphers[(idx / 25) % CIPH_N]; int par = (int)((idx / 75) & 1), be = (int)((idx / 150) % (uint64_t)(maxbe[c->id] + 1)), k;
        vh_handle h; static uint8_t big[320000]; uint8_t key[48]; size_t sizes[4] = {70000, 150000, 66000, 300000};
        memset(&h, 0, sizeof(h)); memset(key, 0xFF, sizeof(key)); memset(big, 0xA7, sizeof(big));
        am_mark(MAXOBJ - 1, -1); vh_set_cap(be); is_par[MAXOBJ - 1] = par; OB[MAXOBJ - 1].cap = be; OB[MAXOBJ - 1].id = MAXOBJ - 1;
        if (par) PH[MAXOBJ - 1].c = c; else CH[MAXOBJ - 1].c = c;
        if (K < MAXOBJ) K = MAXOBJ;                 /* so that the log checker attributes the events */
        vh_set_crash_key("C17:bulk-usage");
        vh_call_begin("bulk usage");
        if (par) {
            c->par_init(&h); c->par_set_key(&h, key, 16, 8, MANTIS_ENCRYPT);
            for (k = 0; k < 4; ++k) c->par_encrypt(big, big, big, sizes[k] / c->bb * c->bb, &h);
            for (k = 0; k < 2100; ++k) c->par_encrypt(big, big, big, c->bb * (size_t)(1 + (k & 3)), &h);
            if (c->par_decrypt) c->par_decrypt(big, big, big, sizes[1] / c->bb * c->bb, &h);
        } else {
            c->ctr_init(&h); c->ctr_set_key(&h, key, 16, 8); c->ctr_set_counter(&h, key, c->bb);
            for (k = 0; k < 4; ++k) c->ctr_encrypt(big, big, sizes[k] + (size_t)k, &h);
            for (k = 0; k < 2100; ++k) c->ctr_encrypt(big, big, (size_t)(1 + (k % 37)), &h);
            c->ctr_encrypt(big, big, 5, &h);
        }
        vh_call_end();
        am_nonzero_live(MAXOBJ - 1);
        vh_call_begin("cleanup after bulk usage"); if (par) c->par_cleanup(&h); else c->ctr_cleanup(&h); vh_call_end();
        VH_COUNT("bulk_usage_objects", 1);
    }
    /* ---------- offline check of the allocator event log ---------- */
    {
        const am_event *ev = am_events(); int nev = am_nevents(), e;
        VH_COUNT("allocator_events", nev);
        for (e = 0; e < nev; ++e) {
            const am_event *x = &ev[e];
            const cop *o = NULL; const char *bad = NULL; char key[300];
            j = x->obj;
            if (j < 0 || j >= K) continue;
            if (x->opidx >= 0) o = is_par[j] ? &PH[j].ops[x->opidx] : &CH[j].ops[x->opidx];
            if (x->op == AM_FREE_NULL) continue;
            if (x->op == AM_FREE) VH_COUNT("free_events", 1); else VH_COUNT("alloc_events", 1);
            if (x->bad == AM_BAD_DOUBLE) bad = "double-free";
            else if (x->bad == AM_BAD_FOREIGN || x->bad == AM_BAD_DECOY) bad = "free-of-pointer-never-allocated";
            else if (x->bad == AM_BAD_INTERIOR) bad = "free-of-interior-pointer";
            else if (x->bad == AM_BAD_OVERRUN) bad = "wrote-beyond-the-allocated-block";
            else if (o && o->expect == 0) bad = "allocator-event-during-invalid-or-inert-call";
            else if (o && (is_par[j] ? o->kind == P_CLEANUP : o->kind == C_CLEANUP) && (o->flags & F_NULL_OBJ)) bad = "allocator-event-during-cleanup(NULL)";
            if (!bad && x->op == AM_FREE && x->block >= 0) {
                if (x->nonzero_before > 0) VH_COUNT("blocks_nonzero_before_cleanup", 1);
                VH_COUNT("bytes_nonzero_before_cleanup", x->nonzero_before > 0 ? x->nonzero_before : 0);
                VH_COUNT("bytes_scanned_at_free", x->size);
                if (wipe_mode) { char cn[80]; snprintf(cn, sizeof(cn), "freed_%s_size_%lu", objname(j, nm, sizeof(nm)), (unsigned long)x->size); *vh_counter_ref(cn) += 1; }
                if (x->nonzero_at_free > 0 && !strcmp(prop, "C17")) {
                    snprintf(d, sizeof(d), "{\"object\":\"%s\",\"block_size\":%lu,\"nonzero_bytes_at_free\":%ld,\"first_nonzero_offset\":%ld,\"nonzero_before_cleanup\":%ld,\"call\":\"%s\"}",
                             objname(j, nm, sizeof(nm)), (unsigned long)x->size, x->nonzero_at_free, x->first_nonzero, x->nonzero_before, x->call);
                    snprintf(key, sizeof(key), "C17:%s:block-not-wiped-before-free", nm);
                    viol(key, idx, d);
                }
            }
            if (bad && !strcmp(prop, "C15")) {
                snprintf(d, sizeof(d), "{\"object\":\"%s\",\"event\":%d,\"op_index\":%d,\"op_class\":\"%s\",\"call\":\"%s\",\"alloc_op\":%d,\"size\":%lu}",
                         objname(j, nm, sizeof(nm)), x->seq, x->opidx, o && o->cls ? o->cls : "", x->call, x->op, (unsigned long)x->size);
                snprintf(key, sizeof(key), "C15:%s:%s", nm, bad);
                viol(key, idx, d);
            }
        }
        /* conservation at quiescence: every history ends with cleanup */
        if (am_live_blocks() != 0 && !strcmp(prop, "C15")) {
            const am_block *bl; int nb, b;
            bl = am_blocks(&nb);
            for (b = 0; b < nb; ++b) if (bl[b].live) {
                char key[300];
                j = bl[b].obj;
                snprintf(d, sizeof(d), "{\"object\":\"%s\",\"leaked_block_size\":%lu,\"live_blocks_at_end\":%d}", j >= 0 && j < K ? objname(j, nm, sizeof(nm)) : "?", (unsigned long)bl[b].size, am_live_blocks());
                snprintf(key, sizeof(key), "C15:%s:block-not-freed-by-cleanup", j >= 0 && j < K ? nm : "?");
                viol(key, idx, d); break;
            }
        }
        /* return values: everything on an inert object returns 0, valid calls 1 */
        for (j = 0; j < K && !strcmp(prop, "C15"); ++j) {
            int n = is_par[j] ? PH[j].n : CH[j].n, i;
            for (i = 0; i < n; ++i) {
                const cop *o = is_par[j] ? &PH[j].ops[i] : &CH[j].ops[i];
                if (o->expect >= 0 && TR[j].r[i].ret != o->expect) {
                    char key[300];
                    snprintf(d, sizeof(d), "{\"object\":\"%s\",\"op_index\":%d,\"op_class\":\"%s\",\"ret\":%d,\"expected\":%d}", objname(j, nm, sizeof(nm)), i, o->cls ? o->cls : "", TR[j].r[i].ret, o->expect);
                    snprintf(key, sizeof(key), "C15:%s:%s:return-value", nm, o->cls ? o->cls : "?");
                    viol(key, idx, d);
                }
                if (o->expect == 0) VH_COUNT("calls_on_inert_or_invalid", 1);
            }
            if (TR[j].canary_damage) { char key[300]; snprintf(key, sizeof(key), "C15:%s:canary-damaged", objname(j, nm, sizeof(nm))); viol(key, idx, "{}"); }
        }
    }
    VH_COUNT("cases", 1);
}

/* ---------------------------------------------------------------- C16 */
static uint8_t *noaccess_page;
static int cold;      /* --mode c16cold: every case is a freshly forked process in which no library function has run yet; the failing
                         allocation is the k-th request of the process's very first init (no dry run, no bystander object) */
static void *volatile ctl_sink;
static uint8_t decoy[8192];

static void c16_case(uint64_t idx)
{
    /* enumeration: init function (3 ctr + 3 parallel) x back end x allocation request x prior class; idx / span = repetition */
    vh_rng r; unsigned fn = (unsigned)(idx % 6), ci = fn % 3, par = fn / 3;
    const vh_cipher *c = &vh_ciphers[ci];
    unsigned nbe = cold ? 3 : (unsigned)maxbe[ci] + 1, be = (unsigned)((idx / 6) % 3), cls = cold ? (unsigned)((idx / 18) % 4) : (unsigned)((idx / 18) % 6);
    vh_handle A, B, live_copy; long nreq, k; int ret, pass; char d[400], key[300], nm[120];
    uint8_t bkey[16], bctr[16], bin[64], z[64], ob1[64], ob2[64];
    int c14 = !strcmp(prop, "C14");
    static const char *const cname[6] = {"zeroed", "all-0xFF", "all-0xA5", "random", "stale-live-handle(ctx->decoy)", "stale-cleaned-handle(ctx->PROT_NONE)"};
    vh_rng_seed(&r, vh_seed, 0x16, idx);
    snprintf(d, sizeof(d), "{\"driver\":\"drv_life\",\"prop\":\"C16\",\"mode\":\"c16\",\"seed\":%llu,\"case\":%llu,\"variant\":\"%s\"}", (unsigned long long)vh_seed, (unsigned long long)idx, vh_variant);
    snprintf(nm, sizeof(nm), "%s%s:%s:%s", c->name, par ? "-parallel" : "", vh_backend_names[be < nbe ? be : 0], cname[cls]);
    snprintf(key, sizeof(key), "C16:%s", nm);
    vh_case_begin(idx, key, d);
    if (be >= nbe) { VH_COUNT("skipped_backend_not_available", 1); return; }
    am_release_all(); am_hard_reset();
    am_set_min_align(((idx / 108) & 1) ? 8 : 16);       /* every second sweep: an allocator that only guarantees 8-byte alignment */
    vh_set_cap((int)be);
    memset(&live_copy, 0, sizeof(live_copy)); memset(&B, 0, sizeof(B)); memset(ob1, 0, sizeof(ob1));
    memset(z, 0, sizeof(z)); vh_rand_bytes(&r, bkey, 16); vh_rand_bytes(&r, bctr, 16); vh_rand_bytes(&r, bin, 64);
    if (!cold) {
    /* bystander object B, live and keyed, must be unaffected */
    memset(&B, 0, sizeof(B));
    am_mark(1, -1);
    if (par) { c->par_init(&B); c->par_set_key(&B, bkey, 16, 7, MANTIS_ENCRYPT); c->par_encrypt(ob1, bin, bin + 32, c->bb * 2, &B); }
    else { c->ctr_init(&B); c->ctr_set_key(&B, bkey, 16, 7); c->ctr_set_counter(&B, bctr, c->bb); c->ctr_encrypt(ob1, z, 40, &B); }
    /* dry run: how many allocation requests does this init make? */
    memset(&A, 0, sizeof(A));
    am_reset(); am_mark(0, 0);
    vh_call_begin("init(dry-run)"); ret = par ? c->par_init(&A) : c->ctr_init(&A); vh_call_end();
    nreq = am_requests();
    if (!ret || nreq < 1) { snprintf(d, sizeof(d), "{\"dry_run_ret\":%d,\"requests\":%ld}", ret, nreq); strcat(key, ":dry-run-init-failed-or-no-allocation"); viol(key, idx, d); return; }
    live_copy = A;
    VH_MAXC("max_allocation_requests_per_init", nreq);
    vh_call_begin("cleanup(dry-run)"); if (par) c->par_cleanup(&A); else c->ctr_cleanup(&A); vh_call_end();
    } else { nreq = 1 + (long)((idx / 72) % 3); }
    for (k = cold ? nreq : 1; k <= nreq; ++k)
    for (pass = cold ? (int)((idx / 216) & 1) : 0; pass < (cold ? (int)((idx / 216) & 1) + 1 : 2); ++pass) {
        /* pass 0: exactly the k-th request fails (a fall-back that obtains the memory another way may let init succeed: the object must
           then be fully functional); pass 1: the k-th and every later request fail (memory is exhausted: init must return 0) */
        const am_event *ev; int nev, e, i; long w;
        const char *bad = NULL; int rets[14], nr = 0;
        /* prior contents of the caller's handle */
        switch (cls) {
        case 0: memset(&A, 0, sizeof(A)); break;
        case 1: memset(&A, 0xFF, sizeof(A)); break;
        case 2: memset(&A, 0xA5, sizeof(A)); break;
        case 3: vh_rand_bytes(&r, &A, sizeof(A)); break;
        case 4: A = live_copy; A.ctx = decoy + 64; break;
        default: A = live_copy; A.ctx = noaccess_page + 128; break;
        }
        for (i = 0; i < (int)sizeof(decoy); ++i) decoy[i] = (uint8_t)(0x5A ^ (i * 13));
        am_add_decoy(decoy + 64);
        if (vh_def_available() && cls <= 3) vh_make_undef(&A, sizeof(A));      /* definedness monitor: the caller's handle holds nothing the library may rely on */
        am_reset(); am_mark(0, 1);
        if (pass) am_set_fail_from(k); else am_set_fail_at(k);
        snprintf(key, sizeof(key), "%s:%s:init-with-failing-allocation", c14 ? "C14" : "C16", nm); vh_set_crash_key(key);
        vh_call_begin("init(allocation fails)"); ret = par ? c->par_init(&A) : c->ctr_init(&A); vh_call_end();
        if (cold && am_requests() < k) {        /* the init made fewer requests than k: no fault was injected */
            am_set_fail_at(-1); VH_COUNT("cold_cases_beyond_the_last_request", 1);
            if (ret) { if (par) c->par_cleanup(&A); else c->ctr_cleanup(&A); }
            return;
        }
        am_set_fail_at(-1);
        if (cold) VH_COUNT("cold_process_fault_cases", 1);
        VH_COUNT("fault_cases", 1);
        { char cn[96]; snprintf(cn, sizeof(cn), "faults_%s%s_%s", c->name, par ? "-parallel" : "", vh_backend_names[be]); *vh_counter_ref(cn) += 1; }
        if (ret != 0 && pass == 1) bad = "init-did-not-return-0";
        if (ret != 0 && pass == 0 && !c14) {
            /* one request failed but init reports success (it got the memory another way): judge the object by what it does */
            uint8_t fo[64], fr[64]; vh_handle F; int r1 = 1, r2 = 1; const char *fb = NULL;
            memset(&F, 0, sizeof(F)); memset(fo, 0, sizeof(fo)); memset(fr, 0, sizeof(fr));
            if (vh_def_available()) vh_make_def(&A, sizeof(A));
            snprintf(key, sizeof(key), "C16:%s:use-of-object-whose-init-recovered-from-a-failed-request", nm); vh_set_crash_key(key);
            am_mark(0, 3);
            vh_call_begin("use after recovered init");
            if (par) { r1 &= c->par_set_key(&A, bkey, 16, 7, MANTIS_ENCRYPT); r1 &= c->par_encrypt(fo, bin, bin + 32, c->bb * 2, &A); c->par_cleanup(&A); }
            else { r1 &= c->ctr_set_key(&A, bkey, 16, 7); r1 &= c->ctr_set_counter(&A, bctr, c->bb); r1 &= c->ctr_encrypt(fo, z, 40, &A); c->ctr_cleanup(&A); }
            vh_call_end();
            am_mark(2, -1);
            if (par) { r2 &= c->par_init(&F); r2 &= c->par_set_key(&F, bkey, 16, 7, MANTIS_ENCRYPT); r2 &= c->par_encrypt(fr, bin, bin + 32, c->bb * 2, &F); c->par_cleanup(&F); }
            else { r2 &= c->ctr_init(&F); r2 &= c->ctr_set_key(&F, bkey, 16, 7); r2 &= c->ctr_set_counter(&F, bctr, c->bb); r2 &= c->ctr_encrypt(fr, z, 40, &F); c->ctr_cleanup(&F); }
            VH_COUNT("inits_that_recovered_from_a_single_failed_request", 1);
            if (!r1 || !r2) fb = "object-from-recovered-init-does-not-work";
            else if (memcmp(fo, fr, 64)) fb = "object-from-recovered-init-computes-differently";
            ev = am_events(); nev = am_nevents();
            for (e = 0; e < nev && !fb; ++e) if (ev[e].bad) fb = "bad-free-by-object-from-recovered-init";
            { const am_block *bl; int nb, b; bl = am_blocks(&nb); for (b = 0; b < nb && !fb; ++b) if (bl[b].live && (bl[b].obj == 0 || bl[b].obj == 2)) fb = "block-leaked-by-object-from-recovered-init"; }
            if (fb) { snprintf(d, sizeof(d), "{\"init\":\"%s%s_init\",\"backend\":\"%s\",\"failed_request\":%ld,\"prior_handle\":\"%s\"}", c->name, par ? "_parallel_ecb" : "_ctr", vh_backend_names[be], k, cname[cls]); snprintf(key, sizeof(key), "C16:%s:%s", nm, fb); viol(key, idx, d); }
            continue;
        }
        if (ret != 0 && c14) {      /* C14 speaks about objects that failed to initialise; this one claims to be live (C16 judges that) */
            vh_call_begin("cleanup(init reported success)"); if (par) c->par_cleanup(&A); else c->ctr_cleanup(&A); vh_call_end();
            continue;
        }
        if (vh_def_available() && cls <= 3) {
            snprintf(key, sizeof(key), "%s:%s:handle-after-failed-init", prop, nm); vh_set_crash_key(key);
            vh_check_defined("return-value", &ret, sizeof(ret));
            vh_check_defined("handle-fields", &A, par ? sizeof(A) : 2 * sizeof(void *));
            vh_make_def(&A, sizeof(A));
        }
        /* battery of later calls on the object: all must be safe and report failure */
        snprintf(key, sizeof(key), "%s:%s:later-call-after-failed-init", c14 ? "C14" : "C16", nm); vh_set_crash_key(key);
        am_mark(0, 2);
        if (!par) {
            uint8_t out[40];
            vh_call_begin("ctr_set_key(after failed init)"); rets[nr++] = c->ctr_set_key(&A, bkey, 16, 7); vh_call_end();
            if (c->has_tkey) { vh_call_begin("ctr_set_tweaked_key(after failed init)"); rets[nr++] = c->ctr_set_tkey(&A, bkey, 16); vh_call_end(); }
            vh_call_begin("ctr_set_tweak(after failed init)"); rets[nr++] = c->ctr_set_tweak(&A, bctr, 8); vh_call_end();
            vh_call_begin("ctr_set_counter(after failed init)"); rets[nr++] = c->ctr_set_counter(&A, bctr, c->bb); vh_call_end();
            vh_call_begin("ctr_encrypt(after failed init)"); rets[nr++] = c->ctr_encrypt(out, z, 40, &A); vh_call_end();
            vh_call_begin("ctr_encrypt(after failed init, 0 bytes)"); rets[nr++] = c->ctr_encrypt(out, z, 0, &A); vh_call_end();
            vh_call_begin("ctr_set_counter(after failed init, NULL)"); rets[nr++] = c->ctr_set_counter(&A, NULL, 0); vh_call_end();
            vh_call_begin("ctr_cleanup(after failed init)"); c->ctr_cleanup(&A); vh_call_end();
            vh_call_begin("ctr_cleanup(again)"); c->ctr_cleanup(&A); vh_call_end();
            vh_call_begin("ctr_encrypt(after cleanup)"); rets[nr++] = c->ctr_encrypt(out, z, 40, &A); vh_call_end();
        } else {
            uint8_t out[64];
            vh_call_begin("parallel_set_key(after failed init)"); rets[nr++] = c->par_set_key(&A, bkey, 16, 7, MANTIS_ENCRYPT); vh_call_end();
            vh_call_begin("parallel_encrypt(after failed init)"); rets[nr++] = c->par_encrypt(out, z, z, c->bb * 2, &A); vh_call_end();
            if (c->par_decrypt) { vh_call_begin("parallel_decrypt(after failed init)"); rets[nr++] = c->par_decrypt(out, z, z, c->bb * 2, &A); vh_call_end(); }
            vh_call_begin("parallel_encrypt(after failed init, 0 bytes)"); rets[nr++] = c->par_encrypt(out, z, z, 0, &A); vh_call_end();
            if (c->par_decrypt) { vh_call_begin("parallel_decrypt(after failed init, 0 bytes)"); rets[nr++] = c->par_decrypt(out, z, z, 0, &A); vh_call_end(); }
            if (c->par_swap) { vh_call_begin("parallel_swap(after failed init)"); c->par_swap(&A); vh_call_end(); }
            vh_call_begin("parallel_cleanup(after failed init)"); c->par_cleanup(&A); vh_call_end();
            vh_call_begin("parallel_cleanup(again)"); c->par_cleanup(&A); vh_call_end();
            vh_call_begin("parallel_encrypt(after cleanup)"); rets[nr++] = c->par_encrypt(out, z, z, c->bb * 2, &A); vh_call_end();
        }
        VH_COUNT("later_calls_checked", nr + 2);
        if (c14) bad = NULL;     /* C14 judges only what it states: the later calls return 0 and touch nothing (crash containment) */
        for (i = 0; i < nr && !bad; ++i) if (rets[i] != 0) bad = "later-call-did-not-report-failure";
        if (c14 && !bad) { VH_COUNT("failed_init_objects_checked", 1); continue; }
        /* allocator log: the failed init must not leave a live block; later calls must not touch the allocator */
        ev = am_events(); nev = am_nevents();
        for (e = 0; e < nev && !bad; ++e) {
            if (ev[e].bad == AM_BAD_DECOY) bad = "freed-stale-context-pointer";
            else if (ev[e].bad) bad = "bad-free-after-failed-init";
            else if (ev[e].opidx == 2 && ev[e].op != AM_FREE_NULL) bad = "allocator-event-in-later-call";
        }
        { const am_block *bl; int nb, b; bl = am_blocks(&nb); for (b = 0; b < nb && !bad; ++b) if (bl[b].live && bl[b].obj == 0) bad = "block-leaked-by-failed-init"; }
        for (w = 0; w < (long)sizeof(decoy) && !bad; ++w) if (decoy[w] != (uint8_t)(0x5A ^ (w * 13))) bad = "stale-context-written";
        /* bystander */
        if (!bad && !cold) {
            am_mark(1, -1);
            if (par) c->par_encrypt(ob2, bin, bin + 32, c->bb * 2, &B);
            else { c->ctr_set_counter(&B, bctr, c->bb); c->ctr_encrypt(ob2, z, 40, &B); }
            if (memcmp(ob1, ob2, par ? c->bb * 2 : 40)) bad = "bystander-object-affected";
        }
        if (bad || vh_want_sample()) {
            snprintf(d, sizeof(d), "{\"init\":\"%s%s_init\",\"backend\":\"%s\",\"failed_request\":%ld,\"of\":%ld,\"prior_handle\":\"%s\",\"init_ret\":%d,\"later_rets\":[%d,%d,%d,%d,%d,%d],\"allocator_events\":%d}",
                     c->name, par ? "_parallel_ecb" : "_ctr", vh_backend_names[be], k, nreq, cname[cls], ret, rets[0], nr > 1 ? rets[1] : -1, nr > 2 ? rets[2] : -1, nr > 3 ? rets[3] : -1, nr > 4 ? rets[4] : -1, nr > 5 ? rets[5] : -1, nev);
            if (bad) { snprintf(key, sizeof(key), "%s:%s:%s", c14 ? "C14" : "C16", nm, bad); viol(key, idx, d); }
            else vh_sample(d);
        }
        if (vh_distinct(vh_hash(nm, strlen(nm), (uint64_t)k))) VH_COUNT("distinct_fault_points", 1);
    }
    am_mark(1, -1);
    if (!cold) { if (par) c->par_cleanup(&B); else c->ctr_cleanup(&B); }
}

/* ---------------------------------------------------------------- C15: a crowd of objects on the real allocator */
#include <malloc.h>
static void crowd_case(uint64_t idx)
{
    enum { NCROWD = 70000 };
    const vh_cipher *c = &vh_ciphers[idx % CIPH_N]; int be = (int)((idx / CIPH_N) % 3), k, bad = -1; char d[300], key_[200];
    static vh_handle *HS; uint8_t key[16], z[16] = {0}, o1[16], o2[16]; struct mallinfo2 m0, m1; long left;
    vh_rng r; vh_rng_seed(&r, vh_seed, 0x15, idx + 999);
    snprintf(d, sizeof(d), "{\"driver\":\"drv_life\",\"prop\":\"C15\",\"mode\":\"c15crowd\",\"seed\":%llu,\"case\":%llu,\"variant\":\"%s\"}", (unsigned long long)vh_seed, (unsigned long long)idx, vh_variant);
    if (be > maxbe[c->id]) be = maxbe[c->id];
    snprintf(key_, sizeof(key_), "C15:%s:%s:crowd", c->name, vh_backend_names[be]);
    vh_case_begin(idx, key_, d);
    am_enable(0);                                          /* the real allocator serves the library in this case */
    vh_set_cap(be);
    if (!HS) HS = calloc(NCROWD, sizeof(*HS));
    memset(HS, 0, NCROWD * sizeof(*HS));
    { vh_handle w; memset(&w, 0, sizeof(w)); c->ctr_init(&w); c->ctr_cleanup(&w); }      /* warm up allocator bookkeeping */
    m0 = mallinfo2();
    vh_rand_bytes(&r, key, 16);
    vh_call_begin("crowd: init + set_key");
    for (k = 0; k < NCROWD; ++k) { key[0] = (uint8_t)k; key[1] = (uint8_t)(k >> 8); key[2] = (uint8_t)(k >> 16); if (!c->ctr_init(&HS[k]) || !c->ctr_set_key(&HS[k], key, 16, 7)) { bad = k; break; } }
    vh_call_end();
    if (bad < 0) {
        /* every object still produces its own stream (first, last and a few in between are compared with a fresh object) */
        static const int probe[5] = {0, 1, 65535, 65536, NCROWD - 1};
        for (k = 0; k < 5 && bad < 0; ++k) {
            vh_handle f; int q = probe[k]; memset(&f, 0, sizeof(f));
            key[0] = (uint8_t)q; key[1] = (uint8_t)(q >> 8); key[2] = (uint8_t)(q >> 16);
            c->ctr_init(&f); c->ctr_set_key(&f, key, 16, 7); c->ctr_encrypt(o2, z, c->bb, &f); c->ctr_cleanup(&f);
            c->ctr_encrypt(o1, z, c->bb, &HS[q]);
            if (memcmp(o1, o2, c->bb)) bad = q;
        }
        if (bad >= 0) { strcat(key_, ":object-affected-by-other-live-objects"); snprintf(d, sizeof(d), "{\"objects_alive\":%d,\"wrong_object\":%d}", NCROWD, bad); viol(key_, idx, d); bad = -2; }
    } else { strcat(key_, ":init-failed-with-many-objects-alive"); snprintf(d, sizeof(d), "{\"objects_alive\":%d}", bad); viol(key_, idx, d); bad = -2; }
    vh_call_begin("crowd: cleanup");
    for (k = 0; k < NCROWD; ++k) c->ctr_cleanup(&HS[k]);
    for (k = NCROWD - 1; k >= 0; --k) c->ctr_cleanup(&HS[k]);                                  /* and once more: must do nothing */
    vh_call_end();
    m1 = mallinfo2();
    left = (long)m1.uordblks - (long)m0.uordblks;
    VH_COUNT("crowd_cases", 1); VH_MAXC("max_objects_alive_at_once", NCROWD);
    if (bad != -2 && left > 65536) {       /* more than 64 KiB still in use after every object was cleaned up */
        snprintf(key_, sizeof(key_), "C15:%s:%s:crowd:heap-not-returned-after-cleanup-of-all-objects", c->name, vh_backend_names[be]);
        snprintf(d, sizeof(d), "{\"objects\":%d,\"heap_bytes_in_use_before\":%lu,\"after\":%lu}", NCROWD, (unsigned long)m0.uordblks, (unsigned long)m1.uordblks);
        viol(key_, idx, d);
    }
    am_enable(1);
}

/* --starve 1: a resource-starved process.  RLIMIT_MEMLOCK is zero and mlock/mlock2/mlockall fail with ENOMEM (seccomp), as for an
   unprivileged process whose locked-memory budget is used up: optional hardening inside the library then does not happen,
   which must not change what is wiped or released. */
#include <sys/prctl.h>
#include <sys/resource.h>
#include <linux/seccomp.h>
#include <linux/filter.h>
#include <linux/audit.h>
#include <sys/syscall.h>
#include <stddef.h>
static int starve(void)
{
    struct rlimit rl = {0, 0};
    struct sock_filter f[] = {
        BPF_STMT(BPF_LD | BPF_W | BPF_ABS, offsetof(struct seccomp_data, arch)),
        BPF_JUMP(BPF_JMP | BPF_JEQ | BPF_K, AUDIT_ARCH_X86_64, 0, 5),
        BPF_STMT(BPF_LD | BPF_W | BPF_ABS, offsetof(struct seccomp_data, nr)),
        BPF_JUMP(BPF_JMP | BPF_JEQ | BPF_K, SYS_mlock, 2, 0),
        BPF_JUMP(BPF_JMP | BPF_JEQ | BPF_K, SYS_mlock2, 1, 0),
        BPF_JUMP(BPF_JMP | BPF_JEQ | BPF_K, SYS_mlockall, 0, 1),
        BPF_STMT(BPF_RET | BPF_K, SECCOMP_RET_ERRNO | 12 /* ENOMEM */),
        BPF_STMT(BPF_RET | BPF_K, SECCOMP_RET_ALLOW),
    };
    struct sock_fprog prog = {(unsigned short)(sizeof(f) / sizeof(f[0])), f};
    setrlimit(RLIMIT_MEMLOCK, &rl);
    if (prctl(PR_SET_NO_NEW_PRIVS, 1, 0, 0, 0)) return 0;
    if (prctl(PR_SET_SECCOMP, SECCOMP_MODE_FILTER, &prog)) return 0;
    { static char pg[4096]; if (mlock(pg, 4096) == 0) { munlock(pg, 4096); return 0; } }      /* positive control: locking must now fail */
    return 1;
}

int main(int argc, char **argv)
{
    int i;
    vh_init(argc, argv);
    prop = vh_getarg("prop", "C15");

    if (ref_selftest()) { printf("{\"type\":\"harness_error\",\"detail\":\"ref selftest\"}\n"); return 2; }
    vh_guard_init();
    vh_install_fault_handler();
    vh_fault_describe_hook = describe_fault;
    vh_pre_call_hook = pre_hook;
    vh_post_call_hook = post_hook;
    ro_guard = !strcmp(prop, "C18");
    vh_ro_inert_cleanup = !strcmp(prop, "C15");
    noaccess_page = mmap(NULL, 8192, PROT_NONE, MAP_PRIVATE | MAP_ANONYMOUS, -1, 0);
    cold = !strcmp(vh_arg_mode, "c16cold");
    if (cold) { maxbe[0] = 2; maxbe[1] = 1; maxbe[2] = 1; vh_fork_each_case = 1; }     /* no library call may happen in this (parent) process */
    else
    for (i = 0; i < CIPH_N; ++i) { maxbe[i] = vh_max_backend(&vh_ciphers[i]); if (maxbe[i] < 0) { printf("{\"type\":\"inconclusive\",\"reason\":\"cannot identify back end\"}\n"); return 2; } }
    {   /* positive controls for the monitor itself: a leak, a double free and a dirty free must be seen */
        void *p;
        am_hard_reset(); am_mark(9, 0);
        vh_call_begin("control"); p = calloc(1, 100); if (p) { volatile uint8_t *vp = p; int q; for (q = 0; q < 100; ++q) vp[q] = 7; ctl_sink = p; free(p); free((void *)ctl_sink); } ctl_sink = malloc(10); vh_call_end();
        {
            const am_event *ev = am_events(); int n = am_nevents(), ok = 0;
            if (n == 4 && ev[1].nonzero_at_free == 100 && ev[2].bad == AM_BAD_DOUBLE && am_live_blocks() == 1) ok = 1;
            if (!ok) { printf("{\"type\":\"harness_error\",\"detail\":\"allocator monitor positive control failed (events=%d)\"}\n", n); return 2; }
            *vh_counter_ref("max_monitor_positive_controls_passed") = 3;
        }
        am_release_all(); am_hard_reset();
    }
    if (atoi(vh_getarg("starve", "0"))) {      /* after the back ends were identified: from here on locking memory fails */
        if (!starve()) { printf("{\"type\":\"inconclusive\",\"reason\":\"cannot install the mlock-failing seccomp filter\"}\n"); return 2; }
        *vh_counter_ref("max_runs_with_mlock_failing") = 1;
    }
    if (!strcmp(vh_arg_mode, "c15crowd")) { vh_fork_each_case = 1; vh_run(crowd_case); }
    else if (!strcmp(vh_arg_mode, "c16") || cold) vh_run(c16_case); else vh_run(life_case);
    vh_finish();
    return 0;
}
