/* Reference model of SKINNY-64/128 written from the specification
 * (Beierle et al., CRYPTO 2016).  Deliberately cell-array / table based. */
#include "ref.h"
#include <string.h>

int ref_tally_enabled = 0;
uint32_t ref_tally8[16][256];
uint32_t ref_tally4[16][16];

static const uint8_t S4[16] = {0xc,0x6,0x9,0x0,0x1,0xa,0x2,0xb,0x3,0x8,0x5,0xd,0x4,0xe,0x7,0xf};
static uint8_t S4I[16];
static uint8_t S8[256], S8I[256];
static int tables_ready = 0;

/* tweakey permutation: new cell i = old cell PT[i] */
static const uint8_t PT[16] = {9,15,8,13,10,14,12,11,0,1,2,3,4,5,6,7};
/* ShiftRows: new cell i = old cell SR[i] */
static const uint8_t SR[16] = {0,1,2,3,7,4,5,6,10,11,8,9,13,14,15,12};
static uint8_t SRI[16];

static uint8_t s8_formula(uint8_t v)
{
    /* bits x[7]..x[0]; four rounds of the NOR/XOR step followed by the bit
       permutation (x2,x1,x7,x6,x4,x0,x3,x5); in the last round the
       permutation is replaced by swapping x1 and x2. */
    int x[8], y[8], i, it;
    for (i = 0; i < 8; ++i) x[i] = (v >> i) & 1;
    for (it = 0; it < 4; ++it) {
        x[4] ^= !(x[7] | x[6]);
        x[0] ^= !(x[3] | x[2]);
        if (it < 3) {
            y[7] = x[2]; y[6] = x[1]; y[5] = x[7]; y[4] = x[6];
            y[3] = x[4]; y[2] = x[0]; y[1] = x[3]; y[0] = x[5];
        } else {
            memcpy(y, x, sizeof(y));
            y[1] = x[2]; y[2] = x[1];
        }
        memcpy(x, y, sizeof(x));
    }
    v = 0;
    for (i = 0; i < 8; ++i) v |= (uint8_t)(x[i] << i);
    return v;
}

static void init_tables(void)
{
    int i;
    if (tables_ready) return;
    for (i = 0; i < 256; ++i) S8[i] = s8_formula((uint8_t)i);
    for (i = 0; i < 256; ++i) S8I[S8[i]] = (uint8_t)i;
    for (i = 0; i < 16; ++i) S4I[S4[i]] = (uint8_t)i;
    for (i = 0; i < 16; ++i) SRI[SR[i]] = (uint8_t)i;
    tables_ready = 1;
}

uint8_t ref_skinny_sbox8(uint8_t x) { init_tables(); return S8[x]; }

unsigned ref_skinny_rounds(unsigned block_bytes, unsigned ntk)
{
    static const unsigned r64[3] = {32, 36, 40}, r128[3] = {40, 48, 56};
    return block_bytes == 8 ? r64[ntk - 1] : r128[ntk - 1];
}

static void load_cells(unsigned cb, const uint8_t *in, uint8_t *c)
{
    int i;
    if (cb == 8) { for (i = 0; i < 16; ++i) c[i] = in[i]; }
    else { for (i = 0; i < 8; ++i) { c[2*i] = in[i] >> 4; c[2*i+1] = in[i] & 15; } }
}
static void store_cells(unsigned cb, const uint8_t *c, uint8_t *out)
{
    int i;
    if (cb == 8) { for (i = 0; i < 16; ++i) out[i] = c[i]; }
    else { for (i = 0; i < 8; ++i) out[i] = (uint8_t)((c[2*i] << 4) | c[2*i+1]); }
}

static uint8_t lfsr2(unsigned cb, uint8_t x)
{
    if (cb == 8) return (uint8_t)((x << 1) | (((x >> 7) ^ (x >> 5)) & 1));
    return (uint8_t)(((x << 1) & 0xE) | (((x >> 3) ^ (x >> 2)) & 1));
}
static uint8_t lfsr3(unsigned cb, uint8_t x)
{
    if (cb == 8) return (uint8_t)((x >> 1) | (((x ^ (x >> 6)) & 1) << 7));
    return (uint8_t)((x >> 1) | (((x ^ (x >> 3)) & 1) << 3));
}

/* Per-round material: rtk[r][0..7] = xor of first two rows of TK1..TKn at
 * round r, rc[r] = 6-bit constant. */
static void expand(unsigned cb, unsigned ntk, unsigned rounds, const uint8_t *tk,
                   uint8_t rtk[64][8], uint8_t rcs[64])
{
    uint8_t T[3][16], tmp[16];
    unsigned z, r, i;
    uint8_t rc = 0;
    unsigned bb = cb == 8 ? 16 : 8;
    for (z = 0; z < ntk; ++z) load_cells(cb, tk + z * bb, T[z]);
    for (r = 0; r < rounds; ++r) {
        rc = (uint8_t)(((rc << 1) & 0x3E) | (((rc >> 5) ^ (rc >> 4) ^ 1) & 1));
        rcs[r] = rc;
        for (i = 0; i < 8; ++i) {
            uint8_t v = 0;
            for (z = 0; z < ntk; ++z) v ^= T[z][i];
            rtk[r][i] = v;
        }
        for (z = 0; z < ntk; ++z) {
            for (i = 0; i < 16; ++i) tmp[i] = T[z][PT[i]];
            memcpy(T[z], tmp, 16);
            if (z == 1) for (i = 0; i < 8; ++i) T[z][i] = lfsr2(cb, T[z][i]);
            if (z == 2) for (i = 0; i < 8; ++i) T[z][i] = lfsr3(cb, T[z][i]);
        }
    }
}

static void mixcols(uint8_t *c)
{
    int j;
    for (j = 0; j < 4; ++j) {
        uint8_t a0 = c[j], a1 = c[4+j], a2 = c[8+j], a3 = c[12+j];
        c[j] = a0 ^ a2 ^ a3; c[4+j] = a0; c[8+j] = a1 ^ a2; c[12+j] = a0 ^ a2;
    }
}
static void mixcols_inv(uint8_t *c)
{
    int j;
    for (j = 0; j < 4; ++j) {
        uint8_t b0 = c[j], b1 = c[4+j], b2 = c[8+j], b3 = c[12+j];
        /* b1=a0, b3=a0^a2 -> a2=b1^b3, b2=a1^a2 -> a1=b2^a2, b0=a0^a2^a3 -> a3=b0^b3 */
        uint8_t a0 = b1, a2 = b1 ^ b3, a1 = b2 ^ a2, a3 = b0 ^ b3;
        c[j] = a0; c[4+j] = a1; c[8+j] = a2; c[12+j] = a3;
    }
}

void ref_skinny_encrypt(unsigned cb, unsigned ntk, unsigned rounds, int tweaked,
                        const uint8_t *tk, const uint8_t *in, uint8_t *out)
{
    uint8_t rtk[64][8], rcs[64], c[16], t[16];
    unsigned r, i;
    init_tables();
    expand(cb, ntk, rounds, tk, rtk, rcs);
    load_cells(cb, in, c);
    for (r = 0; r < rounds; ++r) {
        for (i = 0; i < 16; ++i) {
            if (ref_tally_enabled) { if (cb == 8) ref_tally8[i][c[i]]++; else ref_tally4[i][c[i]]++; }
            c[i] = cb == 8 ? S8[c[i]] : S4[c[i]];
        }
        c[0] ^= rcs[r] & 0xF; c[4] ^= (rcs[r] >> 4) & 3; c[8] ^= 2;
        for (i = 0; i < 8; ++i) c[i] ^= rtk[r][i];
        if (tweaked) c[2] ^= 2;
        for (i = 0; i < 16; ++i) t[i] = c[SR[i]];
        memcpy(c, t, 16);
        mixcols(c);
    }
    store_cells(cb, c, out);
}

void ref_skinny_decrypt(unsigned cb, unsigned ntk, unsigned rounds, int tweaked,
                        const uint8_t *tk, const uint8_t *in, uint8_t *out)
{
    uint8_t rtk[64][8], rcs[64], c[16], t[16];
    unsigned r, i;
    init_tables();
    expand(cb, ntk, rounds, tk, rtk, rcs);
    load_cells(cb, in, c);
    for (r = rounds; r-- > 0; ) {
        mixcols_inv(c);
        for (i = 0; i < 16; ++i) t[i] = c[SRI[i]];
        memcpy(c, t, 16);
        if (tweaked) c[2] ^= 2;
        for (i = 0; i < 8; ++i) c[i] ^= rtk[r][i];
        c[0] ^= rcs[r] & 0xF; c[4] ^= (rcs[r] >> 4) & 3; c[8] ^= 2;
        for (i = 0; i < 16; ++i) {
            if (ref_tally_enabled) { if (cb == 8) ref_tally8[i][c[i]]++; else ref_tally4[i][c[i]]++; }
            c[i] = cb == 8 ? S8I[c[i]] : S4I[c[i]];
        }
    }
    store_cells(cb, c, out);
}

void ref_skinny_key_crypt(unsigned bb, const uint8_t *key, unsigned key_len,
                          int decrypt, const uint8_t *in, uint8_t *out)
{
    uint8_t tk[48];
    unsigned ntk = (key_len + bb - 1) / bb;
    memset(tk, 0, sizeof(tk));
    memcpy(tk, key, key_len);
    if (decrypt) ref_skinny_decrypt(bb == 16 ? 8 : 4, ntk, ref_skinny_rounds(bb, ntk), 0, tk, in, out);
    else ref_skinny_encrypt(bb == 16 ? 8 : 4, ntk, ref_skinny_rounds(bb, ntk), 0, tk, in, out);
}

void ref_skinny_tweaked_crypt(unsigned bb, const uint8_t *key, unsigned key_len,
                              const uint8_t *tweak, unsigned tweak_len,
                              int decrypt, const uint8_t *in, uint8_t *out)
{
    uint8_t tk[48];
    unsigned nk = (key_len + bb - 1) / bb, ntk = nk + 1;
    memset(tk, 0, sizeof(tk));
    if (tweak) memcpy(tk, tweak, tweak_len);
    memcpy(tk + bb, key, key_len);
    if (decrypt) ref_skinny_decrypt(bb == 16 ? 8 : 4, ntk, ref_skinny_rounds(bb, ntk), 1, tk, in, out);
    else ref_skinny_encrypt(bb == 16 ? 8 : 4, ntk, ref_skinny_rounds(bb, ntk), 1, tk, in, out);
}

void ref_ctr_add(uint8_t *ctr, unsigned n, uint64_t inc)
{
    unsigned i = n;
    unsigned carry = 0;
    while (i-- > 0) {
        unsigned v = ctr[i] + (unsigned)(inc & 0xFF) + carry;
        ctr[i] = (uint8_t)v;
        carry = v >> 8;
        inc >>= 8;
    }
}
