/* CTR-object API histories: generator, interpreter, model. */
#include "hist.h"
#include <string.h>
#include <stdlib.h>
#include <limits.h>

void (*vh_pre_call_hook)(vh_obj *ob, int is_cleanup_of_object, int op_index);
void (*vh_post_call_hook)(vh_obj *ob, int op_index);
int vh_ro_inert_cleanup;

const char *const c_kind_names[C_NKINDS] = {"init", "cleanup", "set_key", "set_tweaked_key", "set_tweak", "set_counter", "encrypt"};

/* ------------------------------------------------------------------ */
/* model state machine (also annotates expect / judged)                */
typedef struct {
    int live, mode /*0 none 1 plain 2 tweaked*/, weird, started, scope_ok;
    uint8_t key[48]; unsigned klen, rounds;
    uint8_t tweak[16]; unsigned tlen; int tweak_null;
    uint8_t ctr[16];
    uint64_t pos;
} mstate;

static void m_reset(mstate *m) { memset(m, 0, sizeof(*m)); }

static void keystream_block(const vh_cipher *c, const mstate *m, uint64_t blk, uint8_t *ks)
{
    uint8_t cb[16];
    memcpy(cb, m->ctr, c->bb);
    ref_ctr_add(cb, c->bb, blk);
    if (c->id == CIPH_MANTIS) ref_mantis_encrypt(m->rounds, m->key, m->tweak, cb, ks);
    else if (m->mode == 1) ref_skinny_key_crypt(c->bb, m->key, m->klen, 0, cb, ks);
    else ref_skinny_tweaked_crypt(c->bb, m->key, m->klen, m->tweak, c->bb, 0, cb, ks);
}

static int op_valid_args(const vh_cipher *c, const cop *o)
{
    if (o->flags & F_NULL_OBJ) return 0;
    switch (o->kind) {
    case C_INIT: return 1;
    case C_SET_KEY:
        if (o->flags & F_NULL_PTR) return 0;
        if (o->len < c->key_min || o->len > c->key_max) return 0;
        if (c->id == CIPH_MANTIS && (o->rounds < 5 || o->rounds > 8)) return 0;
        return 1;
    case C_SET_TKEY:
        if (o->flags & F_NULL_PTR) return 0;
        return o->len >= c->bb && o->len <= c->tkey_max;
    case C_SET_TWEAK:
        if (c->id == CIPH_MANTIS) return o->len == 8;
        return o->len >= 1 && o->len <= c->bb;
    case C_SET_COUNTER: return o->len <= c->bb;
    case C_ENCRYPT: return !(o->flags & (F_NULL_OUT | F_NULL_IN));
    }
    return 0;
}

/* one pass over the history; annotates ops (if annotate) and fills t (if t) */
static void model_pass(chist *h, ctrans *t, int annotate)
{
    const vh_cipher *c = h->c;
    mstate m; int i;
    m_reset(&m);
    if (t) { t->out_n = 0; t->backend = -1; t->canary_damage = 0; t->rejected_wrote = 0; }
    if (annotate) { h->n_segments = h->n_judged_bytes = h->n_carry_bytes_max = h->n_wraps = h->n_zero_calls = h->n_midrekey = h->n_invalid = 0; }
    for (i = 0; i < h->n; ++i) {
        cop *o = &h->ops[i];
        int ok = op_valid_args(c, o);
        int expect, judged = 0;
        if (o->kind == C_CLEANUP) expect = -1;
        else if (o->kind == C_INIT) expect = ok ? 1 : 0;
        else expect = (ok && m.live) ? 1 : 0;
        if (t) { t->r[i].ret = expect; t->r[i].ooff = (uint32_t)t->out_n; t->r[i].olen = 0; }
        if (annotate && expect == 0) h->n_invalid++;
        if (expect == 1 || (o->kind == C_CLEANUP && !(o->flags & F_NULL_OBJ))) {
            switch (o->kind) {
            case C_INIT:
                m_reset(&m); m.live = 1; m.scope_ok = 1;
                if (annotate) h->n_segments++;
                break;
            case C_CLEANUP:
                m_reset(&m);
                break;
            case C_SET_KEY:
                if (m.started) { m.scope_ok = 0; if (annotate) h->n_midrekey++; }
                m.mode = 1; m.weird = 0; m.klen = o->len; m.rounds = o->rounds;
                memset(m.key, 0, sizeof(m.key)); memcpy(m.key, h->pool + o->doff, o->len);
                if (c->id == CIPH_MANTIS) memset(m.tweak, 0, 16);
                break;
            case C_SET_TKEY:
                if (m.started) { m.scope_ok = 0; if (annotate) h->n_midrekey++; }
                m.mode = 2; m.weird = 0; m.klen = o->len;
                memset(m.key, 0, sizeof(m.key)); memcpy(m.key, h->pool + o->doff, o->len);
                memset(m.tweak, 0, 16);
                break;
            case C_SET_TWEAK:
                if (m.started) { m.scope_ok = 0; if (annotate) h->n_midrekey++; }
                if (c->id != CIPH_MANTIS && m.mode == 1) m.weird = 1;
                memset(m.tweak, 0, 16);
                if (!(o->flags & F_NULL_PTR)) memcpy(m.tweak, h->pool + o->doff, o->len);
                break;
            case C_SET_COUNTER:
                memset(m.ctr, 0, 16);
                if (!(o->flags & F_NULL_PTR)) memcpy(m.ctr + c->bb - o->len, h->pool + o->doff, o->len);
                m.pos = 0; m.started = 0; m.scope_ok = 1;
                if (annotate) h->n_segments++;
                break;
            case C_ENCRYPT:
                if (o->len == 0) { if (annotate) h->n_zero_calls++; break; }
                judged = (m.mode != 0 && !m.weird && m.scope_ok);
                if (judged && annotate) {
                    /* observations: carries and wrap-around inside this call */
                    uint64_t b0 = m.pos / c->bb, b1 = (m.pos + o->len - 1) / c->bb, b;
                    h->n_judged_bytes += o->len;
                    for (b = b0; b <= b1 && b < b0 + 600; ++b) {
                        uint8_t cb[16]; unsigned k, run = 0;
                        memcpy(cb, m.ctr, c->bb); ref_ctr_add(cb, c->bb, b);
                        for (k = c->bb; k-- > 0 && cb[k] == 0xFF; ) ++run;
                        if (run > h->n_carry_bytes_max) h->n_carry_bytes_max = run;
                        if (run == c->bb) h->n_wraps++;
                    }
                }
                if (judged && t) {
                    uint32_t k; uint8_t ks[16]; uint64_t cur = (uint64_t)-1;
                    const uint8_t *in = h->pool + o->doff;
                    for (k = 0; k < o->len; ++k) {
                        uint64_t p = m.pos + k, b = p / c->bb;
                        if (b != cur) { keystream_block(c, &m, b, ks); cur = b; }
                        t->out[t->out_n + k] = in[k] ^ ks[p % c->bb];
                    }
                    t->r[i].olen = o->len; t->out_n += o->len;
                }
                m.pos += o->len; m.started = 1;
                break;
            }
        }
        if (annotate) { o->expect = (int8_t)expect; o->judged = (uint8_t)judged; }
    }
}

void chist_model(const chist *h, ctrans *t) { model_pass((chist *)h, t, 0); }

/* ------------------------------------------------------------------ */
/* generator                                                           */
static cop *add_op(chist *h, int kind, const char *cls)
{
    cop *o;
    if (h->n >= H_MAXOPS) return NULL;
    o = &h->ops[h->n++];
    memset(o, 0, sizeof(*o));
    o->kind = (uint8_t)kind; o->mis_a = o->mis_b = -1; o->cls = cls; o->expect = -1;
    return o;
}
static uint32_t pool_put(chist *h, const void *p, size_t n)
{
    uint32_t off = (uint32_t)h->pool_n;
    if (h->pool_n + n > H_POOL) { n = H_POOL - h->pool_n; }
    if (p) memcpy(h->pool + off, p, n);
    h->pool_n += n;
    return off;
}
static void placement(cop *o, vh_rng *r, unsigned g)
{
    if (g & G_MISALIGN) {
        o->mis_a = vh_below(r, 4) ? (int16_t)vh_below(r, 64) : -1;
        o->mis_b = vh_below(r, 4) ? (int16_t)vh_below(r, 64) : -1;
        if (!vh_below(r, 6)) o->flags |= F_FRONT;
    }
}
static unsigned pick_keylen(const vh_cipher *c, vh_rng *r, unsigned g, int tweaked)
{
    unsigned maxk = tweaked ? c->tkey_max : c->key_max;
    unsigned nprim = maxk / c->bb;
    if (c->id == CIPH_MANTIS) return 16;
    if ((g & G_INBETWEEN_KEYS) && !vh_below(r, 3)) return c->bb + vh_below(r, maxk - c->bb + 1);
    return c->bb * (1 + vh_below(r, nprim));
}
static void gen_key(chist *h, vh_rng *r, unsigned g, int tweaked)
{
    const vh_cipher *c = h->c;
    uint8_t buf[64];
    cop *o = add_op(h, tweaked ? C_SET_TKEY : C_SET_KEY, tweaked ? "set_tweaked_key" : "set_key");
    if (!o) return;
    o->len = pick_keylen(c, r, g, tweaked);
    o->rounds = c->id == CIPH_MANTIS ? 5 + vh_below(r, 4) : 0;
    vh_fill_interesting(r, buf, o->len);
    if (!vh_below(r, 5)) {      /* a key this object has had before, through either key function: "already loaded" shortcuts must notice what happened in between */
        int k, cand[16], nc = 0; unsigned maxk = tweaked ? c->tkey_max : c->key_max;
        for (k = 0; k < h->n - 1 && nc < 16; ++k) if ((h->ops[k].kind == C_SET_KEY || h->ops[k].kind == C_SET_TKEY) && !(h->ops[k].flags & F_NULL_PTR) && h->ops[k].dlen >= c->bb && h->ops[k].expect != 0) cand[nc++] = k;
        if (nc) { const cop *q = &h->ops[cand[vh_below(r, (uint32_t)nc)]]; unsigned n; if (vh_below(r, 2) && q->len <= maxk && q->len >= c->bb) o->len = q->len; n = q->dlen < o->len ? q->dlen : o->len; memcpy(buf, h->pool + q->doff, n); o->cls = tweaked ? "set_tweaked_key(a key used before)" : "set_key(a key used before)";
                  if (!vh_below(r, 3)) { vh_related(r, buf, h->pool + q->doff, n); o->cls = tweaked ? "set_tweaked_key(related to an earlier key)" : "set_key(related to an earlier key)"; }
                  else if (c->id != CIPH_MANTIS && !vh_below(r, 2)) {      /* the earlier key extended / cut by zero bytes to another accepted size */
                      unsigned m = q->dlen, lo = c->bb; while (m > lo && h->pool[q->doff + m - 1] == 0) --m;
                      unsigned nl = c->bb * (1 + vh_below(r, 3)); if (nl < m) nl = (m + c->bb - 1) / c->bb * c->bb; if (nl > maxk) nl = maxk;
                      if (nl >= m) { o->len = nl; memset(buf, 0, sizeof(buf)); memcpy(buf, h->pool + q->doff, m); o->cls = tweaked ? "set_tweaked_key(an earlier key zero-extended or cut)" : "set_key(an earlier key zero-extended or cut)"; } } }
    }
    o->doff = pool_put(h, buf, o->len); o->dlen = o->len;
    placement(o, r, g);
}
static void gen_tweak(chist *h, vh_rng *r, unsigned g)
{
    const vh_cipher *c = h->c;
    uint8_t buf[16];
    cop *o = add_op(h, C_SET_TWEAK, "set_tweak");
    if (!o) return;
    o->len = c->id == CIPH_MANTIS ? 8 : (vh_below(r, 3) ? c->bb : 1 + vh_below(r, c->bb));
    if (!vh_below(r, 12)) { o->flags |= F_NULL_PTR; o->cls = "set_tweak(null)"; o->dlen = 0; return; }
    vh_fill_interesting(r, buf, o->len);
    if (!vh_below(r, 6)) {      /* the same tweak as the previous tweak call: "nothing changed" shortcuts must still behave like a tweak change */
        int k;
        for (k = h->n - 2; k >= 0; --k) if (h->ops[k].kind == C_SET_TWEAK && !(h->ops[k].flags & F_NULL_PTR) && h->ops[k].dlen) {
            o->len = h->ops[k].len; memcpy(buf, h->pool + h->ops[k].doff, o->len); o->cls = "set_tweak(same value again)"; break;
        }
    } else if (c->id != CIPH_MANTIS && !vh_below(r, 7)) {   /* a strict prefix of the previous tweak with a shorter length: the rest must become zero */
        int k;
        for (k = h->n - 2; k >= 0; --k) if (h->ops[k].kind == C_SET_TWEAK && !(h->ops[k].flags & F_NULL_PTR) && h->ops[k].dlen > 1) {
            o->len = 1 + vh_below(r, h->ops[k].len - 1); memcpy(buf, h->pool + h->ops[k].doff, o->len); o->cls = "set_tweak(shorter prefix of the previous one)"; break;
        }
    } else if (!vh_below(r, 6)) {   /* a tweak related to the previous one: halves / words repeated or swapped, one bit apart */
        int k;
        for (k = h->n - 2; k >= 0; --k) if (h->ops[k].kind == C_SET_TWEAK && !(h->ops[k].flags & F_NULL_PTR) && h->ops[k].dlen) {
            unsigned n = h->ops[k].len < o->len ? h->ops[k].len : o->len; vh_related(r, buf, h->pool + h->ops[k].doff, n); break;
        }
    }
    o->doff = pool_put(h, buf, o->len); o->dlen = o->len;
    placement(o, r, g);
}
static void gen_counter(chist *h, vh_rng *r, unsigned g)
{
    const vh_cipher *c = h->c;
    uint8_t buf[16];
    unsigned bb = c->bb, k;
    cop *o = add_op(h, C_SET_COUNTER, "set_counter");
    if (!o) return;
    o->len = vh_below(r, 4) ? bb : vh_below(r, bb + 1);
    if (!vh_below(r, 12)) { o->flags |= F_NULL_PTR; o->cls = "set_counter(null)"; o->dlen = 0; return; }
    switch (vh_below(r, 10)) {
    case 8: case 9: vh_rand_bytes(r, buf, 16); vh_fill_msb_boundary(r, buf, o->len); break;   /* low word about to cross 0x7F..FF / 0x80..00 */
    case 0: memset(buf, 0xFF, 16); break;                                   /* wraps at once */
    case 1: memset(buf, 0xFF, 16); buf[o->len ? o->len - 1 : 0] = (uint8_t)(0xFF - vh_below(r, 20)); break; /* wraps within a few blocks */
    case 2: /* 00..00 FF..FF : carry chain through k bytes */
        memset(buf, 0, 16); k = o->len ? 1 + vh_below(r, o->len) : 0;
        if (k) memset(buf + o->len - k, 0xFF, k);
        if (o->len && vh_below(r, 2)) buf[o->len - 1] = (uint8_t)(0xFF - vh_below(r, 12));
        break;
    case 3: vh_rand_bytes(r, buf, 16); k = o->len ? 1 + vh_below(r, o->len) : 0;   /* random high part, FF tail */
        if (k) memset(buf + o->len - k, 0xFF, k);
        if (o->len) buf[o->len - 1] = (uint8_t)(0xFF - vh_below(r, 12));
        break;
    case 4: memset(buf, 0, 16); break;
    default: vh_rand_bytes(r, buf, 16); break;
    }
    o->doff = pool_put(h, buf, o->len); o->dlen = o->len;
    placement(o, r, g);
}
static uint32_t pick_datalen(const vh_cipher *c, vh_rng *r, unsigned g, uint32_t budget)
{
    uint32_t n, bb = c->bb;
    switch (vh_below(r, 12)) {
    case 0: n = 0; break;
    case 1: n = 1; break;
    case 2: n = 1 + vh_below(r, 2 * bb); break;
    case 3: n = bb * 4 - 1 + vh_below(r, 3); break;
    case 4: n = bb * 8 - 1 + vh_below(r, 3); break;
    case 5: n = bb * (1 + vh_below(r, 20)); break;
    case 6: n = bb * 16 - 1 + vh_below(r, 3); break;
    case 7: n = (g & G_SMALL) ? vh_below(r, 100) : vh_below(r, 3000); break;
    default: n = vh_below(r, (g & G_SMALL) ? 80 : 400); break;
    }
    if (n > budget) n = budget;
    return n;
}
static void gen_encrypt(chist *h, vh_rng *r, unsigned g, uint32_t *budget)
{
    cop *o = add_op(h, C_ENCRYPT, "encrypt");
    uint32_t n;
    if (!o) return;
    n = pick_datalen(h->c, r, g, *budget);
    if (h->pool_n + n > H_POOL) n = (uint32_t)(H_POOL - h->pool_n);
    o->len = n; o->dlen = n;
    o->doff = pool_put(h, NULL, n);
    if (vh_below(r, 8)) vh_rand_bytes(r, h->pool + o->doff, n); else memset(h->pool + o->doff, 0, n);
    if (!vh_below(r, 3)) o->flags |= F_INPLACE;
    placement(o, r, g);
    *budget -= n;
}

/* an invalid call of a random class, appropriate for cipher c */
static void make_invalid(chist *h, cop *o, vh_rng *r)
{
    const vh_cipher *c = h->c;
    static const uint32_t big[] = {0xFFFFFFFFu, 0x80000000u, 0x10000u, 0x7FFFFFFFu, 257};
    uint8_t buf[64];
    int kind;
    uint32_t cap;
    memset(o, 0, sizeof(*o));
    o->mis_a = o->mis_b = -1; o->injected = 1; o->expect = 0;
    vh_rand_bytes(r, buf, sizeof(buf));
    for (;;) {
        kind = C_SET_KEY + (int)vh_below(r, 5);
        if (kind == C_SET_TKEY && !c->has_tkey) continue;
        break;
    }
    if (!vh_below(r, 7)) {          /* NULL object, any function */
        kind = (int)vh_below(r, C_NKINDS);
        if (kind == C_SET_TKEY && !c->has_tkey) kind = C_SET_KEY;
        o->kind = (uint8_t)kind; o->flags = F_NULL_OBJ; o->cls = "null-object";
        o->len = kind == C_ENCRYPT ? 16 : (kind == C_SET_TWEAK ? 8 : (kind == C_SET_COUNTER ? c->bb : 16));
        o->rounds = 7;
        o->doff = pool_put(h, buf, o->len); o->dlen = o->len;
        if (kind == C_CLEANUP) o->expect = -1;
        return;
    }
    o->kind = (uint8_t)kind;
    o->rounds = 5 + vh_below(r, 4);
    switch (kind) {
    case C_SET_KEY: case C_SET_TKEY: {
        uint32_t maxk = kind == C_SET_KEY ? c->key_max : c->tkey_max;
        uint32_t mink = kind == C_SET_KEY ? c->key_min : c->bb;
        switch (vh_below(r, c->id == CIPH_MANTIS ? 7 : 5)) {
        case 0: o->flags |= F_NULL_PTR; o->len = mink; o->cls = "null-key"; break;
        case 1: o->len = 0; o->cls = "key-len-0"; break;
        case 2: o->len = mink - 1 - vh_below(r, 3); o->cls = "key-too-short"; break;
        case 3: o->len = maxk + 1 + vh_below(r, 3); o->cls = "key-too-long"; break;
        case 4: o->len = vh_below(r, 2) ? big[vh_below(r, 5)] : vh_wrap_len(r, c->key_min, c->key_max); o->cls = "key-len-huge"; break;
        case 5: o->len = 16; o->rounds = vh_below(r, 5); o->cls = "mantis-rounds-low"; break;
        default: o->len = 16; o->rounds = vh_below(r, 3) == 0 ? 9 + vh_below(r, 4) : (vh_below(r, 2) ? big[vh_below(r, 5)] : ((1 + vh_below(r, 3)) << (8 * (1 + vh_below(r, 3)))) + 5 + vh_below(r, 4)); o->cls = "mantis-rounds-high"; break;   /* also values whose low 8/16/24 bits are a legal count */
        }
        break; }
    case C_SET_TWEAK:
        if (c->id == CIPH_MANTIS) {
            static const uint32_t bad[] = {0, 1, 7, 9, 16, 0xFFFFFFFFu, 0x10008u};
            o->len = bad[vh_below(r, 7)]; o->cls = "tweak-len-bad";
        } else switch (vh_below(r, 3)) {
            case 0: o->len = 0; o->cls = "tweak-len-0"; break;
            case 1: o->len = c->bb + 1 + vh_below(r, 3); o->cls = "tweak-too-long"; break;
            default: o->len = vh_below(r, 2) ? big[vh_below(r, 5)] : vh_wrap_len(r, 1, c->bb); o->cls = "tweak-len-huge"; break;
        }
        if (!vh_below(r, 4)) o->flags |= F_NULL_PTR;
        break;
    case C_SET_COUNTER:
        if (vh_below(r, 2)) { o->len = c->bb + 1 + vh_below(r, 3); o->cls = "counter-too-long"; }
        else { o->len = vh_below(r, 2) ? big[vh_below(r, 5)] : vh_wrap_len(r, 0, c->bb); o->cls = "counter-len-huge"; }
        if (!vh_below(r, 4)) o->flags |= F_NULL_PTR;
        break;
    case C_ENCRYPT:
        switch (vh_below(r, 3)) {
        case 0: o->flags |= F_NULL_OUT; o->cls = "null-output"; break;
        case 1: o->flags |= F_NULL_IN; o->cls = "null-input"; break;
        default: o->flags |= F_NULL_IN | F_NULL_OUT; o->cls = "null-in-out"; break;
        }
        o->len = vh_below(r, 3) ? 1 + vh_below(r, 200) : 0;
        break;
    }
    /* provide only a short, exactly guarded buffer: reading up to the declared
       (invalid) length would fault */
    cap = o->len > 64 ? (uint32_t)(1 + vh_below(r, 64)) : o->len;
    if (kind == C_ENCRYPT) cap = o->len;
    o->dlen = (o->flags & F_NULL_PTR) ? 0 : cap;
    o->doff = pool_put(h, NULL, o->dlen);
    vh_rand_bytes(r, h->pool + o->doff, o->dlen);
}

void chist_gen(chist *h, const vh_cipher *c, vh_rng *r, unsigned g)
{
    int target = 3 + (int)vh_below(r, (g & G_SMALL) ? 24 : 60);
    uint32_t budget = (g & G_SMALL) ? 700 : 6000;
    int live = 0, keyed = 0, tweaked = 0, started = 0, guard = 0;
    uint8_t trk_ctr[16] = {0}; uint64_t trk_pos = 0;          /* counter and bytes consumed since the last counter set (approximate: ignores injected invalid calls) */
    h->c = c; h->n = 0; h->pool_n = 0;
    if ((g & G_LIFECYCLE) && !vh_below(r, 6)) {
        /* calls on a zeroed, never initialised handle */
        int k = 1 + (int)vh_below(r, 3);
        while (k--) switch (vh_below(r, 5)) {
            case 0: gen_key(h, r, g, 0); break;
            case 1: gen_counter(h, r, g); break;
            case 2: gen_encrypt(h, r, g | G_SMALL, &budget); break;
            case 3: gen_tweak(h, r, g); break;
            default: add_op(h, C_CLEANUP, "cleanup(zeroed)"); break;
        }
    }
    while (h->n < target && h->n < H_MAXOPS - 8 && ++guard < 1000) {
        uint32_t x;
        if (!live) {
            add_op(h, C_INIT, "init"); live = 1; keyed = 0; tweaked = 0; started = 0; memset(trk_ctr, 0, 16); trk_pos = 0;
            continue;
        }
        if (!keyed && !((g & G_UNKEYED) && !vh_below(r, 4))) {
            int tw = c->has_tkey && ((g & G_TWEAKED_ONLY) || vh_below(r, 2));
            gen_key(h, r, g, tw); keyed = 1; tweaked = tw;
            continue;
        }
        x = vh_below(r, 100);
        if (x < 50) { gen_encrypt(h, r, g, &budget); if (h->ops[h->n - 1].len) started = 1; trk_pos += h->ops[h->n - 1].len; }
        else if (x < 65) {
            gen_counter(h, r, g);
            if (started && !vh_below(r, 5)) {
                /* a counter equal to where the stream already is: the next block, or the start of the next 4- or 8-block batch.
                   It is still a counter set: buffered keystream must be dropped like for any other value */
                static const unsigned rnd[3] = {1, 4, 8};
                cop *o = &h->ops[h->n - 1]; uint8_t v[16]; unsigned q = rnd[vh_below(r, 3)]; uint64_t blocks = (trk_pos + c->bb - 1) / c->bb;
                blocks = (blocks + q - 1) / q * q;
                memcpy(v, trk_ctr, 16); ref_ctr_add(v, c->bb, blocks);
                o->cls = "set_counter(equal to the current stream position)";
                if (vh_below(r, 2)) {   /* ... or the same except for one bit in one of the bytes to the left of the last one: "is it the block I already have?" tests must look at every byte */
                    v[vh_below(r, c->bb - 1)] ^= (uint8_t)(1u << vh_below(r, 8)); o->cls = "set_counter(current stream position with one high bit changed)";
                }
                o->flags &= (uint8_t)~F_NULL_PTR; o->len = c->bb; o->dlen = c->bb; o->doff = pool_put(h, v, c->bb);
            }
            { const cop *o = &h->ops[h->n - 1]; memset(trk_ctr, 0, 16); if (!(o->flags & F_NULL_PTR) && o->len <= c->bb) memcpy(trk_ctr + c->bb - o->len, h->pool + o->doff, o->len); trk_pos = 0; }
            started = 0;
        }
        else if (x < 75) {
            if (c->id == CIPH_MANTIS || tweaked || (g & G_PLAIN_TWEAK)) {
                gen_tweak(h, r, g);
                if (started && !(g & G_REKEY_MID)) { gen_counter(h, r, g); started = 0; }
            }
        } else if (x < 85) {
            int tw = c->has_tkey && ((g & G_TWEAKED_ONLY) || vh_below(r, 2)), was_tw = tweaked;
            gen_key(h, r, g, tw); keyed = 1; tweaked = tw;
            /* cross-back-end histories: a tweak set straight after a tweaked key, and straight after changing from a tweaked to a plain
               key (the remembered tweak of an incremental set_tweak is live state that every back end must treat alike) */
            if ((g & G_PLAIN_TWEAK) && c->has_tkey && (tw || was_tw) && vh_below(r, 2)) gen_tweak(h, r, g);
            if (started && !(g & G_REKEY_MID)) { gen_counter(h, r, g); started = 0; }
        } else if (x < 90 && (g & G_LIFECYCLE)) {
            int k;
            add_op(h, C_CLEANUP, "cleanup"); live = 0;
            k = (int)vh_below(r, 4);
            while (k--) switch (vh_below(r, 6)) {     /* use after cleanup */
                case 0: gen_key(h, r, g, 0); h->ops[h->n - 1].cls = "set_key(after-cleanup)"; break;
                case 1: gen_counter(h, r, g); h->ops[h->n - 1].cls = "set_counter(after-cleanup)"; break;
                case 2: gen_encrypt(h, r, g | G_SMALL, &budget); h->ops[h->n - 1].cls = "encrypt(after-cleanup)"; break;
                case 3: gen_tweak(h, r, g); h->ops[h->n - 1].cls = "set_tweak(after-cleanup)"; break;
                case 4: if (c->has_tkey) { gen_key(h, r, g, 1); h->ops[h->n - 1].cls = "set_tweaked_key(after-cleanup)"; } break;
                default: add_op(h, C_CLEANUP, "cleanup(again)"); break;
            }
        } else if (x < 93 && (g & G_UNKEYED)) {
            /* nothing */
        }
    }
    if (g & G_INVALID) {
        int k = 1 + (int)vh_below(r, 6);
        while (k-- && h->n < H_MAXOPS - 2) {
            int pos = (int)vh_below(r, (uint32_t)h->n + 1);
            cop inv;
            make_invalid(h, &inv, r);
            memmove(&h->ops[pos + 1], &h->ops[pos], (size_t)(h->n - pos) * sizeof(cop));
            h->ops[pos] = inv; h->n++;
        }
    }
    add_op(h, C_CLEANUP, "cleanup(final)");
    model_pass(h, NULL, 1);
}

void chist_strip_invalid(const chist *h, chist *out, int *map)
{
    int i;
    out->c = h->c; out->n = 0; out->pool_n = h->pool_n;
    memcpy(out->pool, h->pool, h->pool_n);
    for (i = 0; i < h->n; ++i) {
        const cop *o = &h->ops[i];
        if (o->expect == 0) continue;
        if (o->kind == C_CLEANUP && (o->flags & F_NULL_OBJ)) continue;
        if (map) map[out->n] = i;
        out->ops[out->n++] = *o;
    }
    out->n_segments = h->n_segments;
}

/* ------------------------------------------------------------------ */
/* interpreter                                                         */
static uint8_t *place(int arena, const cop *o, int which, size_t n)
{
    int mis = which ? o->mis_b : o->mis_a;
    return (o->flags & F_FRONT) ? vh_gfront(arena, n, mis) : vh_gback(arena, n, mis);
}

void chist_exec(const chist *h, int i, vh_obj *ob, ctrans *t, const char *prefix)
{
    const vh_cipher *c = h->c;
    char key[256];
    const cop *o = &h->ops[i];
    vh_handle *obj = (o->flags & F_NULL_OBJ) ? NULL : &ob->H;
    uint8_t *a = NULL, *b = NULL;
    int ret = -1, used_a = 0, used_b = 0;
    long where = 0;
    snprintf(key, sizeof(key), "%s:%s", prefix, o->cls ? o->cls : c_kind_names[o->kind]);
    vh_set_crash_key(key);
    t->r[i].ooff = (uint32_t)t->out_n; t->r[i].olen = 0;
    if (o->kind >= C_SET_KEY && o->kind <= C_SET_COUNTER && !(o->flags & F_NULL_PTR)) {
        a = place(0, o, 0, o->dlen); used_a = 1;
        memcpy(a, h->pool + o->doff, o->dlen);
        vh_gprotect(0, 1);          /* key / tweak / counter bytes are inputs: their pages are read-only during the call */
    }
    if (vh_pre_call_hook) vh_pre_call_hook(ob, o->kind == C_CLEANUP && obj, i);
    switch (o->kind) {
    case C_INIT:
        vh_call_begin("ctr_init"); ret = c->ctr_init(obj); vh_call_end();
        if (obj && ret) { ob->live = 1; if (t->backend < 0) t->backend = c->ctr_backend(&ob->H); }
        break;
    case C_CLEANUP:
        if (obj && !ob->live && vh_ro_inert_cleanup) {
            vh_handle *ro = (vh_handle *)vh_ro_copy(1, &ob->H, sizeof(ob->H));
            vh_call_begin("ctr_cleanup(inert, read-only handle)"); c->ctr_cleanup(ro); vh_call_end();
            vh_ro_release(1);
        } else { vh_call_begin("ctr_cleanup"); c->ctr_cleanup(obj); vh_call_end(); }
        if (obj) ob->live = 0;
        break;
    case C_SET_KEY:
        vh_call_begin("ctr_set_key"); ret = c->ctr_set_key(obj, a, o->len, o->rounds); vh_call_end(); break;
    case C_SET_TKEY:
        vh_call_begin("ctr_set_tweaked_key"); ret = c->ctr_set_tkey(obj, a, o->len); vh_call_end(); break;
    case C_SET_TWEAK:
        vh_call_begin("ctr_set_tweak"); ret = c->ctr_set_tweak(obj, a, o->len); vh_call_end(); break;
    case C_SET_COUNTER:
        vh_call_begin("ctr_set_counter"); ret = c->ctr_set_counter(obj, a, o->len); vh_call_end(); break;
    case C_ENCRYPT: {
        uint8_t *in = NULL, *out = NULL;
        if (!(o->flags & F_NULL_IN) || (o->flags & F_INPLACE)) { a = place(1, o, 0, o->len); used_a = 2; memcpy(a, h->pool + o->doff, o->len); }
        if (!(o->flags & F_NULL_IN)) in = a;
        if (!(o->flags & F_NULL_OUT)) {
            if (o->flags & F_INPLACE) { out = a; }
            else { b = place(2, o, 1, o->len); used_b = 1; memset(b, 0xEE, o->len); vh_make_undef(b, o->len); out = b; if (used_a == 2) vh_gprotect(1, 1); }
        }
        vh_call_begin("ctr_encrypt"); ret = c->ctr_encrypt(out, in, o->len, obj); vh_call_end();
        if (!ret && out && !t->rejected_wrote) {      /* a refused call leaves the caller's output buffer as it was */
            uint32_t k; const uint8_t *orig = h->pool + o->doff;
            if (!(o->flags & F_INPLACE)) vh_make_def(out, o->len);
            for (k = 0; k < o->len; ++k) if (out[k] != ((o->flags & F_INPLACE) ? orig[k] : 0xEE)) { t->rejected_wrote = i + 1; break; }
        }
        if (ret && out && t->out_n + o->len <= H_OUT) {
            memcpy(t->out + t->out_n, out, o->len);
            t->r[i].olen = o->len; t->out_n += o->len;
        }
        break; }
    }
    if (vh_post_call_hook) vh_post_call_hook(ob, i);
    t->r[i].ret = ret;
    if (vh_def_available()) {
        if (o->kind != C_CLEANUP) vh_check_defined("return-value", &ret, sizeof(ret));
        if (t->r[i].olen) vh_check_defined("output", t->out + t->r[i].ooff, t->r[i].olen);
        if (obj) vh_check_defined("handle", &ob->H, 2 * sizeof(void *));
    }
    if (used_a && vh_gcheck(used_a == 2 ? 1 : 0, &where) && !t->canary_damage) { t->canary_damage = i + 1; t->canary_where = where; }
    if (used_b && vh_gcheck(2, &where) && !t->canary_damage) { t->canary_damage = i + 1; t->canary_where = where; }
}

void ctrans_reset(ctrans *t) { t->out_n = 0; t->backend = -1; t->canary_damage = 0; t->canary_where = 0; t->rejected_wrote = 0; }

void chist_run(const chist *h, ctrans *t, const char *prefix)
{
    vh_obj ob;
    int i;
    memset(&ob, 0, sizeof(ob));
    ctrans_reset(t);
    for (i = 0; i < h->n; ++i) chist_exec(h, i, &ob, t, prefix);
    if (ob.live) { vh_set_crash_key(prefix); vh_call_begin("ctr_cleanup"); h->c->ctr_cleanup(&ob.H); vh_call_end(); }
}

/* ------------------------------------------------------------------ */
int ctrans_diff(const cop *ops, int n, const ctrans *a, const ctrans *b, int use_judged, int *what)
{
    int i;
    for (i = 0; i < n; ++i) {
        if (a->r[i].ret != b->r[i].ret) { if (what) *what = 0; return i; }
        if (use_judged && !ops[i].judged) continue;
        if (a->r[i].olen != b->r[i].olen || memcmp(a->out + a->r[i].ooff, b->out + b->r[i].ooff, a->r[i].olen)) { if (what) *what = 1; return i; }
    }
    return -1;
}

void chist_json(const chist *h, vh_sb *s)
{
    int i;
    sb_printf(s, "{\"cipher\":\"%s\",\"ops\":[", h->c->name);
    for (i = 0; i < h->n; ++i) {
        const cop *o = &h->ops[i];
        sb_printf(s, "%s{\"op\":\"%s\"", i ? "," : "", c_kind_names[o->kind]);
        if (o->cls && strcmp(o->cls, c_kind_names[o->kind])) sb_printf(s, ",\"class\":\"%s\"", o->cls);
        if (o->kind != C_INIT && o->kind != C_CLEANUP) {
            sb_printf(s, ",\"len\":%u", o->len);
            if (h->c->id == CIPH_MANTIS && o->kind == C_SET_KEY) sb_printf(s, ",\"rounds\":%u", o->rounds);
            if (o->flags & F_NULL_PTR) sb_printf(s, ",\"data\":null");
            else { sb_printf(s, ",\"data\":"); sb_hexn(s, h->pool + o->doff, o->dlen, 48); }
        }
        if (o->flags & ~F_NULL_PTR) sb_printf(s, ",\"flags\":%u", o->flags);
        if (o->mis_a >= 0 || o->mis_b >= 0) sb_printf(s, ",\"mis\":[%d,%d]", o->mis_a, o->mis_b);
        sb_printf(s, ",\"expect\":%d%s}", o->expect, o->judged ? ",\"judged\":true" : "");
    }
    sb_printf(s, "]}");
}

uint64_t chist_hash(const chist *h)
{
    uint64_t x = VH_HASH_INIT;
    int i;
    x = vh_hash(&h->c->id, sizeof(int), x);
    for (i = 0; i < h->n; ++i) {
        const cop *o = &h->ops[i];
        x = vh_hash(&o->kind, 1, x); x = vh_hash(&o->flags, 1, x); x = vh_hash(&o->len, 4, x);
        x = vh_hash(&o->rounds, 4, x); x = vh_hash(&o->mis_a, 2, x); x = vh_hash(&o->mis_b, 2, x);
        x = vh_hash(h->pool + o->doff, o->dlen, x);
    }
    return x;
}

void chist_annotate(chist *h) { model_pass(h, NULL, 1); }
