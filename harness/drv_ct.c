/* Driver for C08: constant-time behaviour, decided by a secret-taint monitor.
 * Key, tweak, counter and data bytes are marked UNDEFINED before each API
 * call (valgrind memcheck: VALGRIND_MAKE_MEM_UNDEFINED, build -DVH_VALGRIND;
 * clang MemorySanitizer: __msan_poison).  The tools then report exactly the
 * events that refute the property: a conditional jump, or a memory address,
 * computed from a secret.  Under memcheck reports are attributed to the API
 * call by VALGRIND_COUNT_ERRORS deltas; under MSan the first report aborts the
 * child and the fork containment attributes it to the call in progress.
 * A positive control (secret-indexed table lookup + secret-dependent branch in
 * the harness) must be reported or the run is inconclusive. */
#include "hist.h"
#include <string.h>
#include <stdlib.h>
#ifdef VH_VALGRIND
#include <valgrind/memcheck.h>
#define ERRCOUNT() ((unsigned)VALGRIND_COUNT_ERRORS)
#define ON_VALGRIND() RUNNING_ON_VALGRIND
#else
#define ERRCOUNT() 0u
#define ON_VALGRIND() 0
#endif

static int maxbe[CIPH_N];
static unsigned e_before;
static char cur_fn[96], cur_be[16];
static uint64_t cur_idx;

#define SECRET(p, n) vh_make_undef((p), (n))
#define PUBLIC(p, n) vh_make_def((p), (n))

static void viol(const char *key, const char *detail)
{
    vh_sb rp; sb_init(&rp);
    sb_printf(&rp, "{\"driver\":\"drv_ct\",\"prop\":\"C08\",\"mode\":\"taint\",\"seed\":%llu,\"case\":%llu,\"variant\":\"%s\",\"case_detail\":%s}",
              (unsigned long long)vh_seed, (unsigned long long)cur_idx, vh_variant, detail);
    vh_violation(key, detail, rp.p);
    sb_free(&rp);
}
static void call_begin(const char *fn, const char *be, const char *params)
{
    char key[256];
    snprintf(cur_fn, sizeof(cur_fn), "%s", fn); snprintf(cur_be, sizeof(cur_be), "%s", be);
    (void)params; snprintf(key, sizeof(key), "C08:%s:%s:secret-dependent-branch-or-address-or-fault", fn, be);
    vh_set_crash_key(key);
    e_before = ERRCOUNT();
    vh_call_begin(fn);
}
static void call_end(const char *params)
{
    unsigned e;
    vh_call_end();
    e = ERRCOUNT();
    VH_COUNT("api_calls_with_tainted_secrets", 1);
    if (vh_distinct(vh_hash(params, strlen(params), vh_hash(cur_fn, strlen(cur_fn), vh_hash(cur_be, strlen(cur_be), VH_HASH_INIT))))) VH_COUNT("distinct_function_backend_parameter_points", 1);
    if (e != e_before) {
        char key[256], d[256];
        snprintf(key, sizeof(key), "C08:%s:%s:secret-dependent-branch-or-address", cur_fn, cur_be);
        snprintf(d, sizeof(d), "{\"function\":\"%s\",\"backend\":\"%s\",\"public_parameters\":\"%s\",\"memcheck_reports_during_call\":%u}", cur_fn, cur_be, params, e - e_before);
        viol(key, d);
    }
}

static uint8_t SEC[700000] __attribute__((aligned(64))), OUT[700000] __attribute__((aligned(64))), TW[700000] __attribute__((aligned(64)));

static unsigned aged_changes(void)
{
    static unsigned n;
    if (!n) { n = (unsigned)atoi(vh_getarg("aged", "0")); if (!n) n = ON_VALGRIND() ? 300 : 65600; }
    return n;
}
static void case_plain(uint64_t k, vh_rng *r)
{
    /* key-schedule and single-block functions: every legal key / tweak length */
    unsigned f = (unsigned)(k % 3);      /* 0 skinny128, 1 skinny64, 2 mantis */
    char params[96];
    if (f < 2) {
        unsigned bb = f ? 8 : 16, sub = (unsigned)((k / 3) % 3), L;
        uint64_t q = k / 9;
        uint8_t *key = SEC, *blk = SEC + 64, *tw = SEC + 96, out[16];
        Skinny128TweakedKey_t a128; Skinny64TweakedKey_t a64; int aged = 0;
        vh_rand_bytes(r, SEC, 128); PUBLIC(SEC, 128);
        if (sub == 0) { L = bb + (unsigned)(q % (2 * bb + 1)); snprintf(params, sizeof(params), "set_key len=%u", L); }
        else if (sub == 1) { L = bb + (unsigned)(q % (bb + 1)); snprintf(params, sizeof(params), "set_tweaked_key len=%u", L); }
        else { L = 1 + (unsigned)(q % bb); snprintf(params, sizeof(params), "set_tweak len=%u", L); }
        if (sub == 2 && q % 50 == 27) {
            /* an "old" schedule: tens of thousands (under valgrind: hundreds) of earlier tweak changes with public values, so that
               code which switches strategy after the 256th / 65536th change is reached before the secret tweak arrives */
            unsigned n, N = aged_changes(); uint8_t pt[16];
            if (bb == 16) skinny128_set_tweaked_key(&a128, key, 32); else skinny64_set_tweaked_key(&a64, key, 16);
            for (n = 0; n < N; ++n) { memset(pt, (int)n, 16); pt[n & 7] ^= (uint8_t)(n >> 8); if (bb == 16) skinny128_set_tweak(&a128, pt, 16); else skinny64_set_tweak(&a64, pt, 8); }
            aged = 1; VH_COUNT("aged_schedules_tainted_after_many_public_tweak_changes", 1); VH_MAXC("max_public_changes_before_the_tainted_call", N);
        }
        SECRET(key, 48); SECRET(blk, 16); SECRET(tw, 16);
        if (bb == 16) {
            if (sub == 0) { call_begin("skinny128_set_key", "-", params); skinny128_set_key(&a128.ks, key, L); call_end(params); }
            else if (!aged) { call_begin("skinny128_set_tweaked_key", "-", params); skinny128_set_tweaked_key(&a128, key, sub == 1 ? L : 16 + 16 * (unsigned)(q & 1)); call_end(params); }
            if (sub == 2) {
                call_begin("skinny128_set_tweak", "-", params); skinny128_set_tweak(&a128, (q & 32) ? NULL : tw, L); call_end(params);
                /* later tweak changes replace a SECRET tweak (the first one replaced the public all-zero tweak) */
                call_begin("skinny128_set_tweak", "-", params); skinny128_set_tweak(&a128, tw, 16); call_end(params);
                call_begin("skinny128_set_tweak", "-", params); skinny128_set_tweak(&a128, tw + 3, L); call_end(params);
                call_begin("skinny128_set_tweak", "-", params); skinny128_set_tweak(&a128, NULL, L); call_end(params);
            }
            call_begin("skinny128_ecb_encrypt", "-", params); skinny128_ecb_encrypt(out, blk, &a128.ks); call_end(params);
            call_begin("skinny128_ecb_decrypt", "-", params); skinny128_ecb_decrypt(out, blk, &a128.ks); call_end(params);
        } else {
            if (sub == 0) { call_begin("skinny64_set_key", "-", params); skinny64_set_key(&a64.ks, key, L); call_end(params); }
            else if (!aged) { call_begin("skinny64_set_tweaked_key", "-", params); skinny64_set_tweaked_key(&a64, key, sub == 1 ? L : 8 + 8 * (unsigned)(q & 1)); call_end(params); }
            if (sub == 2) {
                call_begin("skinny64_set_tweak", "-", params); skinny64_set_tweak(&a64, (q & 32) ? NULL : tw, L); call_end(params);
                call_begin("skinny64_set_tweak", "-", params); skinny64_set_tweak(&a64, tw, 8); call_end(params);
                call_begin("skinny64_set_tweak", "-", params); skinny64_set_tweak(&a64, tw + 3, L); call_end(params);
                call_begin("skinny64_set_tweak", "-", params); skinny64_set_tweak(&a64, NULL, L); call_end(params);
            }
            call_begin("skinny64_ecb_encrypt", "-", params); skinny64_ecb_encrypt(out, blk, &a64.ks); call_end(params);
            call_begin("skinny64_ecb_decrypt", "-", params); skinny64_ecb_decrypt(out, blk, &a64.ks); call_end(params);
        }
        PUBLIC(out, 16);
    } else {
        unsigned rounds = 5 + (unsigned)((k / 3) % 4), mode = (unsigned)((k / 12) & 1);
        uint8_t *key = SEC, *blk = SEC + 64, *tw = SEC + 96, out[8]; MantisKey_t km;
        vh_rand_bytes(r, SEC, 128); PUBLIC(SEC, 128);
        snprintf(params, sizeof(params), "rounds=%u mode=%u", rounds, mode);
        SECRET(key, 16); SECRET(blk, 8); SECRET(tw, 16);
        call_begin("mantis_set_key", "-", params); mantis_set_key(&km, key, 16, rounds, mode ? MANTIS_ENCRYPT : MANTIS_DECRYPT); call_end(params);
        call_begin("mantis_set_tweak", "-", params); mantis_set_tweak(&km, tw, 8); call_end(params);
        call_begin("mantis_set_tweak", "-", params); mantis_set_tweak(&km, tw + 8, 8); call_end(params);
        call_begin("mantis_ecb_crypt", "-", params); mantis_ecb_crypt(out, blk, &km); call_end(params);
        call_begin("mantis_ecb_crypt_tweaked", "-", params); mantis_ecb_crypt_tweaked(out, blk, tw + 8, &km); call_end(params);
        call_begin("mantis_swap_modes", "-", params); mantis_swap_modes(&km); call_end(params);
        call_begin("mantis_ecb_crypt", "-", params); mantis_ecb_crypt(out, blk, &km); call_end(params);
        PUBLIC(out, 8);
    }
}

static void case_ctr(uint64_t k, vh_rng *r)
{
    const vh_cipher *c = &vh_ciphers[k % CIPH_N];
    uint64_t q = k / CIPH_N;
    int be = (int)(q % (uint64_t)(maxbe[c->id] + 1)), tweaked = c->has_tkey && ((q / 3) & 1);
    unsigned klen = c->id == CIPH_MANTIS ? 16 : c->bb + (unsigned)((q / 6) % ((tweaked ? 1 : 2) * c->bb + 1));
    unsigned clen = (unsigned)((q / 7) % (c->bb + 1)), tlen = c->id == CIPH_MANTIS ? 8 : 1 + (unsigned)((q / 5) % c->bb);
    unsigned total = (unsigned)((q * 7) % 201), nsplit = 1 + (unsigned)(q % 4), i, done = 0;
    if (q % 61 == 17) total = 66000 + (unsigned)(q % 5000);          /* requests of 64 KiB and more take other paths in some implementations */
    if (q % 307 == 33) total = 530000 + (unsigned)(q % 60000);       /* ... and of 512 KiB and more */
    if (total > 60000 && (q & 1)) nsplit = 1;                         /* one aligned call from a batch boundary */
    vh_handle h; char params[128]; const char *ben = vh_backend_names[be], *fn[6];
    static char fnb[6][48];
    static const char *const suf[6] = {"ctr_init", "ctr_set_key", "ctr_set_tweak", "ctr_set_counter", "ctr_encrypt", "ctr_cleanup"};
    for (i = 0; i < 6; ++i) { snprintf(fnb[i], 48, "%s_%s", c->name, suf[i]); fn[i] = fnb[i]; }
    if (tweaked) snprintf(fnb[1], 48, "%s_ctr_set_tweaked_key", c->name);
    vh_rand_bytes(r, SEC, 512); if (total > 300) memset(SEC + 512, 0x6B, total); PUBLIC(SEC, 512 + total);
    memset(&h, 0, sizeof(h));
    vh_set_cap(be);
    snprintf(params, sizeof(params), "key_len=%u tweak_len=%u counter_len=%u total=%u calls=%u", klen, tlen, clen, total, nsplit);
    call_begin(fn[0], ben, params); c->ctr_init(&h); call_end(params);
    if (c->ctr_backend(&h) != be) { viol("C08:backend-not-pinned", "{}"); c->ctr_cleanup(&h); return; }
    SECRET(SEC, 48); SECRET(SEC + 64, 16); SECRET(SEC + 96, 16); SECRET(SEC + 128, 256 + total);
    call_begin(fn[1], ben, params); if (tweaked) c->ctr_set_tkey(&h, SEC, klen); else c->ctr_set_key(&h, SEC, klen, 5 + (unsigned)(q % 4)); call_end(params);
    if (q % 83 == 41 && (tweaked || c->id == CIPH_MANTIS)) {      /* an "old" object: many earlier public tweak changes (see case_plain) */
        unsigned n, N = aged_changes(); uint8_t pt[16];
        for (n = 0; n < N; ++n) { memset(pt, (int)n, 16); pt[n & 7] ^= (uint8_t)(n >> 8); c->ctr_set_tweak(&h, pt, c->id == CIPH_MANTIS ? 8 : c->bb); }
        VH_COUNT("aged_ctr_objects_tainted_after_many_public_tweak_changes", 1);
    }
    if (tweaked || c->id == CIPH_MANTIS) {
        call_begin(fn[2], ben, params); c->ctr_set_tweak(&h, SEC + 64, tlen); call_end(params);
        call_begin(fn[2], ben, params); c->ctr_set_tweak(&h, SEC + 72, tlen); call_end(params);      /* replaces a secret tweak */
    }
    call_begin(fn[3], ben, params); c->ctr_set_counter(&h, (q & 16) ? NULL : SEC + 96, clen); call_end(params);
    if (q & 32) { call_begin(fn[3], ben, params); c->ctr_set_counter(&h, SEC + 100, clen); call_end(params); }   /* replaces a secret counter */
    for (i = 0; i < nsplit; ++i) {
        unsigned n = i + 1 == nsplit ? total - done : (total - done) / 2;
        call_begin(fn[4], ben, params); c->ctr_encrypt(OUT + done, SEC + 128 + done, n, &h); call_end(params);
        done += n;
        if (i == 1 && (q & 8)) { call_begin(fn[1], ben, params); if (tweaked) c->ctr_set_tkey(&h, SEC, klen); else c->ctr_set_key(&h, SEC, klen, 6); call_end(params); }   /* mid-stream rekey path */
        if (i == 0 && (q & 64) && (tweaked || c->id == CIPH_MANTIS)) { call_begin(fn[2], ben, params); c->ctr_set_tweak(&h, SEC + 80, tlen); call_end(params); }      /* mid-stream tweak change */
    }
    PUBLIC(OUT, 256 + total);
    call_begin(fn[5], ben, params); c->ctr_cleanup(&h); call_end(params);
}

static void case_par(uint64_t k, vh_rng *r)
{
    const vh_cipher *c = &vh_ciphers[k % CIPH_N];
    uint64_t q = k / CIPH_N;
    int be = (int)(q % (uint64_t)(maxbe[c->id] + 1));
    unsigned klen = c->id == CIPH_MANTIS ? 16 : c->bb + (unsigned)((q / 3) % (2 * c->bb + 1)), nb = (q % 53 == 29) ? (66000 + (unsigned)(q % 3000)) / c->bb : (unsigned)((q / 2) % 21), len;   /* large requests: at least 64 KiB for every block size */
    vh_handle h; char params[128]; const char *ben = vh_backend_names[be]; static char fnb[5][56]; unsigned i;
    static const char *const suf[5] = {"parallel_ecb_set_key", "parallel_ecb_encrypt", "parallel_ecb_decrypt", "parallel_ecb_swap_modes", "parallel_ecb_crypt"};
    for (i = 0; i < 5; ++i) snprintf(fnb[i], 56, "%s_%s", c->name, suf[i]);
    if (q % 307 == 33) nb = (530000 + (unsigned)(q % 60000)) / c->bb;     /* ... and 512 KiB and more */
    len = nb * c->bb;
    vh_rand_bytes(r, SEC, 64 + len); vh_rand_bytes(r, TW, len); PUBLIC(SEC, 64 + len); PUBLIC(TW, len);
    memset(&h, 0, sizeof(h));
    vh_set_cap(be);
    snprintf(params, sizeof(params), "key_len=%u blocks=%u", klen, nb);
    c->par_init(&h);
    if (c->par_backend(&h) != be) { viol("C08:backend-not-pinned", "{}"); c->par_cleanup(&h); return; }
    SECRET(SEC, 48); SECRET(SEC + 64, len); SECRET(TW, len);
    call_begin(fnb[0], ben, params); c->par_set_key(&h, SEC, klen, 5 + (unsigned)(q % 4), (q & 1) ? MANTIS_ENCRYPT : MANTIS_DECRYPT); call_end(params);
    if (c->id == CIPH_MANTIS) {
        call_begin(fnb[4], ben, params); c->par_encrypt(OUT, SEC + 64, TW, len, &h); call_end(params);
        call_begin(fnb[3], ben, params); c->par_swap(&h); call_end(params);
        call_begin(fnb[4], ben, params); c->par_encrypt(OUT, SEC + 64, TW, len, &h); call_end(params);
    } else {
        call_begin(fnb[1], ben, params); c->par_encrypt(OUT, SEC + 64, NULL, len, &h); call_end(params);
        call_begin(fnb[2], ben, params); c->par_decrypt(OUT, SEC + 64, NULL, len, &h); call_end(params);
    }
    PUBLIC(OUT, len);
    c->par_cleanup(&h);
}

static void one_case(uint64_t idx)
{
    vh_rng r; char d[256];
    vh_rng_seed(&r, vh_seed, 0x08, idx);
    cur_idx = idx;
    snprintf(d, sizeof(d), "{\"driver\":\"drv_ct\",\"prop\":\"C08\",\"mode\":\"taint\",\"seed\":%llu,\"case\":%llu,\"variant\":\"%s\"}", (unsigned long long)vh_seed, (unsigned long long)idx, vh_variant);
    vh_case_begin(idx, "C08", d);
    switch (idx % 3) {
    case 0: case_plain(idx / 3, &r); break;
    case 1: case_ctr(idx / 3, &r); break;
    default: case_par(idx / 3, &r); break;
    }
    if (vh_want_sample()) { char s[200]; snprintf(s, sizeof(s), "{\"case\":%llu,\"last_call\":\"%s\",\"backend\":\"%s\",\"secrets\":\"key, tweak, counter, data marked undefined\"}", (unsigned long long)idx, cur_fn, cur_be); vh_sample(s); }
}

/* positive control: must be reported by the taint monitor */
static volatile const uint8_t TABLE[256] = {1, 2, 3, 4, 5, 6, 7, 8, 9, 10, 11, 12, 13, 14, 15, 16, 17, 18, 19, 20};
static volatile unsigned ctl_sink1, ctl_sink2;
__attribute__((noinline)) static void leaky(const volatile uint8_t *secret)
{
    ctl_sink1 = TABLE[secret[0]];             /* secret-dependent address */
    if (secret[1] & 1) ctl_sink2 = 3;         /* secret-dependent branch */
}

int main(int argc, char **argv)
{
    int i;
    vh_init(argc, argv);
    if (!vh_def_available()) { printf("{\"type\":\"inconclusive\",\"reason\":\"taint monitor not available (need valgrind with -DVH_VALGRIND, or MSan build)\"}\n"); return 2; }
    for (i = 0; i < CIPH_N; ++i) { maxbe[i] = vh_max_backend(&vh_ciphers[i]); if (maxbe[i] < 0) { printf("{\"type\":\"inconclusive\",\"reason\":\"cannot identify back end\"}\n"); return 2; } }
    if (!strcmp(vh_getarg("control", "0"), "1")) {
        /* run ONLY the positive control: under memcheck the error counter must move, under MSan the process must die */
        static volatile uint8_t s[2]; unsigned e0 = ERRCOUNT();
        s[0] = 3; s[1] = 1; SECRET((void *)s, 2);
        leaky(s);
        printf("{\"type\":\"control\",\"reports\":%u}\n", ERRCOUNT() - e0);
        return 0;
    }
    vh_run(one_case);
    vh_finish();
    return 0;
}
