/* Allocator monitor.  Linked with
 *   -Wl,--wrap=malloc,--wrap=calloc,--wrap=realloc,--wrap=free,--wrap=posix_memalign,--wrap=aligned_alloc,--wrap=memalign
 * Every allocator call made while a library call is in progress
 * (vh_sh->in_call) is logged, served from an mmap arena whose blocks end at a
 * PROT_NONE page, can be made to fail, is scanned at free() and is then
 * quarantined PROT_NONE for ever.  Calls from the harness itself go to the
 * real allocator. */
#define _GNU_SOURCE
#include "allocmon.h"
#include "vh.h"
#include <string.h>
#include <stdlib.h>
#include <unistd.h>
#include <sys/mman.h>
#include <sys/uio.h>
#include <errno.h>

void *__real_malloc(size_t);
void *__real_calloc(size_t, size_t);
void *__real_realloc(void *, size_t);
void __real_free(void *);
void *__real_mmap(void *, size_t, int, int, int, off_t);
int __real_munmap(void *, size_t);
/* the monitor's own mappings bypass the wrappers */
#define mmap __real_mmap
#define munmap __real_munmap

#define PG 4096
static am_event ev[AM_MAX_EVENTS];
static int nev;
static am_block blk[AM_MAX_BLOCKS];
static int nblk;
static long fail_at = -1;      /* fail the k-th monitored request (1-based) since reset */
static int fail_persist;       /* ... and every later one as well (memory is really exhausted) */
static long nreq;
static int cur_obj = -1, cur_op = -1;
static void *decoys[8]; static int ndecoy;
static int enabled = 1;
static unsigned min_align = 16;
void am_set_min_align(unsigned a) { min_align = a; }

void am_reset(void) { nev = 0; nreq = 0; fail_at = -1; fail_persist = 0; cur_obj = cur_op = -1; }
void am_hard_reset(void) { am_reset(); nblk = 0; ndecoy = 0; }
void am_set_fail_at(long k) { fail_at = k; fail_persist = 0; nreq = 0; }
void am_set_fail_from(long k) { fail_at = k; fail_persist = 1; nreq = 0; }
void am_mark(int obj, int op) { cur_obj = obj; cur_op = op; }
int am_nevents(void) { return nev; }
const am_event *am_events(void) { return ev; }
long am_requests(void) { return nreq; }
void am_enable(int on) { enabled = on; }
void am_add_decoy(void *p) { if (ndecoy < 8) decoys[ndecoy++] = p; }

static int monitored(void) { return enabled && vh_sh && vh_sh->in_call; }

static am_event *log_ev(int op, size_t size, void *ptr)
{
    am_event *e;
    if (nev >= AM_MAX_EVENTS) return NULL;
    e = &ev[nev++];
    memset(e, 0, sizeof(*e));
    e->seq = nev; e->op = op; e->size = size; e->ptr = ptr; e->obj = cur_obj; e->opidx = cur_op; e->block = -1;
    strncpy(e->call, vh_sh ? vh_sh->call_name : "", sizeof(e->call) - 1);
    return e;
}

static void *arena_alloc(size_t size, size_t align, int zero, int op)
{
    size_t span = (size + 64 + PG - 1) / PG * PG;      /* room for the alignment slack below the block */
    uint8_t *m, *p;
    am_block *b;
    am_event *e;
    ++nreq;
    if (fail_at > 0 && (nreq == fail_at || (fail_persist && nreq > fail_at))) { e = log_ev(op, size, NULL); if (e) e->failed_by_injection = 1; return NULL; }
    if (span == 0) span = PG;
    if (nblk >= AM_MAX_BLOCKS) { log_ev(op, size, NULL); return NULL; }
    m = mmap(NULL, span + PG, PROT_READ | PROT_WRITE, MAP_PRIVATE | MAP_ANONYMOUS, -1, 0);
    if (m == MAP_FAILED) { log_ev(op, size, NULL); return NULL; }
    mprotect(m + span, PG, PROT_NONE);
    if (align == 0) align = min_align;          /* malloc / calloc / realloc: the allocator's own guarantee */
    p = m + span - size;
    if (align < 16) {
        /* weakly aligned allocator: the block starts at 8 or 24 modulo 32 (alternating), never on a 16-byte boundary */
        uintptr_t want = (nblk & 1) ? 24 : 8, a = (uintptr_t)p & ~(uintptr_t)31;
        p = (uint8_t *)(a + want);
        if (p > m + span - size) p -= 32;
    } else
    p = (uint8_t *)((uintptr_t)p & ~(uintptr_t)(align - 1));
    memset(m, 0xD7, span);                       /* garbage unless calloc */
    if (zero) memset(p, 0, size);
    b = &blk[nblk];
    b->is_map = 0; b->map = m; b->span = span + PG; b->ptr = p; b->size = size; b->live = 1; b->obj = cur_obj; b->id = nblk; b->nz_before = -1; b->nz_at_free = -1;
    e = log_ev(op, size, p); if (e) e->block = nblk;
    ++nblk;
    return p;
}

static am_block *find_block(void *p)
{
    int i;
    for (i = nblk - 1; i >= 0; --i) if (blk[i].ptr == p) return &blk[i];
    return NULL;
}
int am_in_arena(const void *p, int *block, long *off)
{
    int i;
    for (i = 0; i < nblk; ++i)
        if ((const uint8_t *)p >= blk[i].map && (const uint8_t *)p < blk[i].map + blk[i].span) {
            if (block) *block = i;
            if (off) *off = (long)((const uint8_t *)p - blk[i].ptr);
            return 1;
        }
    return 0;
}
const am_block *am_blocks(int *n) { if (n) *n = nblk; return blk; }
int am_live_blocks(void) { int i, k = 0; for (i = 0; i < nblk; ++i) if (blk[i].live) ++k; return k; }

/* non-zero bytes in a mapping made by the library; pages that cannot be read (guard pages) are skipped without faulting */
static long map_nonzero(const uint8_t *p, size_t n, long *first)
{
    static uint8_t pg[PG]; long nz = 0; size_t off;
    if (first) *first = -1;
    for (off = 0; off < n; off += PG) {
        size_t len = n - off < PG ? n - off : PG, k; struct iovec l = {pg, len}, r = {(void *)(p + off), len};
        if (process_vm_readv(getpid(), &l, 1, &r, 1, 0) != (ssize_t)len) continue;
        for (k = 0; k < len; ++k) if (pg[k]) { if (first && *first < 0) *first = (long)(off + k); ++nz; }
    }
    return nz;
}
long am_nonzero_live(int obj)
{
    long tot = 0; int i; size_t k;
    for (i = 0; i < nblk; ++i) if (blk[i].live && (obj < 0 || blk[i].obj == obj)) {
        long nz = 0;
        if (blk[i].is_map) nz = map_nonzero(blk[i].ptr, blk[i].size, NULL); else
        for (k = 0; k < blk[i].size; ++k) if (blk[i].ptr[k]) ++nz;
        blk[i].nz_before = nz; tot += nz;
    }
    return tot;
}

static long slack_bad(const am_block *b)
{
    const uint8_t *e = b->ptr + b->size, *lim = b->map + (b->span - PG); long k;
    for (k = 0; e + k < lim; ++k) if (e[k] != 0xD7) return k;
    return -1;
}
int am_slack_damaged(int obj, long *off)
{
    int i;
    for (i = 0; i < nblk; ++i) if (blk[i].live && blk[i].map && !blk[i].is_map && (obj < 0 || blk[i].obj == obj)) { long k = slack_bad(&blk[i]); if (k >= 0) { if (off) *off = k; return 1; } }
    return 0;
}
static void arena_free(void *p)
{
    am_block *b = find_block(p);
    am_event *e = log_ev(AM_FREE, 0, p);
    size_t k; long nz = 0; int i;
    if (!b) {
        int bi; long off;
        if (e) {
            e->bad = AM_BAD_FOREIGN;
            for (i = 0; i < ndecoy; ++i) if (decoys[i] == p) e->bad = AM_BAD_DECOY;
            if (am_in_arena(p, &bi, &off)) { e->bad = AM_BAD_INTERIOR; e->block = bi; }
        }
        return;                 /* never hand an unknown pointer to the real allocator */
    }
    if (e) { e->block = b->id; e->size = b->size; }
    if (!b->live) { if (e) e->bad = AM_BAD_DOUBLE; return; }
    for (k = 0; k < b->size; ++k) if (b->ptr[k]) ++nz;
    b->nz_at_free = nz; b->live = 0;
    if (e && slack_bad(b) >= 0) e->bad = AM_BAD_OVERRUN;       /* bytes after the block (before the guard page) were written */
    if (e) { e->nonzero_at_free = nz; e->nonzero_before = b->nz_before; e->first_nonzero = -1; for (k = 0; k < b->size; ++k) if (b->ptr[k]) { e->first_nonzero = (long)k; break; } }
    mprotect(b->map, b->span, PROT_NONE);        /* quarantine: any later access faults */
}

void *__wrap_malloc(size_t n) { return monitored() ? arena_alloc(n, 0, 0, AM_MALLOC) : __real_malloc(n); }
void *__wrap_calloc(size_t a, size_t b)
{
    if (!monitored()) return __real_calloc(a, b);
    if (b && a > (size_t)-1 / b) { log_ev(AM_CALLOC, (size_t)-1, NULL); return NULL; }
    return arena_alloc(a * b, 0, 1, AM_CALLOC);
}
void *__wrap_realloc(void *p, size_t n)
{
    if (!monitored() && !(p && am_in_arena(p, NULL, NULL))) return __real_realloc(p, n);
    {
        void *q = arena_alloc(n, 0, 0, AM_REALLOC);
        am_block *b = p ? find_block(p) : NULL;
        if (q && b) memcpy(q, p, b->size < n ? b->size : n);
        if (q && p) arena_free(p);
        return q;
    }
}
void __wrap_free(void *p)
{
    if (!p) { if (monitored()) log_ev(AM_FREE_NULL, 0, NULL); return; }
    if (monitored() || am_in_arena(p, NULL, NULL)) { arena_free(p); return; }
    __real_free(p);
}
int __wrap_posix_memalign(void **out, size_t align, size_t n)
{
    extern int __real_posix_memalign(void **, size_t, size_t);
    if (!monitored()) return __real_posix_memalign(out, align, n);
    {   /* on failure glibc leaves *out untouched (POSIX: unspecified): a caller that relies on it being NULL must not be helped */
        void *q = arena_alloc(n, align, 0, AM_MEMALIGN);
        if (!q) return 12;
        *out = q;
        return 0;
    }
}
void *__wrap_aligned_alloc(size_t align, size_t n)
{
    extern void *__real_aligned_alloc(size_t, size_t);
    return monitored() ? arena_alloc(n, align, 0, AM_MEMALIGN) : __real_aligned_alloc(align, n);
}
void *__wrap_memalign(size_t align, size_t n)
{
    extern void *__real_memalign(size_t, size_t);
    return monitored() ? arena_alloc(n, align, 0, AM_MEMALIGN) : __real_memalign(align, n);
}

/* make the live blocks of an object read-only (ro != 0) or writable again: a call that is documented to only
   read the object must not fault while its state is PROT_READ */
void am_protect_obj(int obj, int ro)
{
    int i;
    for (i = 0; i < nblk; ++i)
        if (blk[i].live && blk[i].obj == obj && blk[i].map)
            mprotect(blk[i].map, blk[i].span - PG, ro ? PROT_READ : (PROT_READ | PROT_WRITE));
}

/* release the address space of quarantined blocks (between cases) */
void am_release_all(void)
{
    int i;
    for (i = 0; i < nblk; ++i) if (blk[i].map) { munmap(blk[i].map, blk[i].span); blk[i].map = NULL; }
    nblk = 0;
}

/* ---- mappings made by the library itself (mmap / munmap): logged, can be made to fail, scanned when unmapped ---- */
#undef mmap
#undef munmap
static void *wrap_mmap_common(void *addr, size_t len, int prot, int flags, int fd, off_t off)
{
    void *p; am_block *b; am_event *e;
    if (!monitored()) return __real_mmap(addr, len, prot, flags, fd, off);
    ++nreq;
    if (fail_at > 0 && (nreq == fail_at || (fail_persist && nreq > fail_at))) { e = log_ev(AM_MMAP, len, NULL); if (e) { e->failed_by_injection = 1; e->is_map = 1; } errno = ENOMEM; return MAP_FAILED; }
    p = __real_mmap(addr, len, prot, flags, fd, off);
    if (p == MAP_FAILED || nblk >= AM_MAX_BLOCKS) { e = log_ev(AM_MMAP, len, NULL); if (e) e->is_map = 1; return p; }
    b = &blk[nblk]; memset(b, 0, sizeof(*b));
    b->ptr = p; b->size = len; b->live = 1; b->obj = cur_obj; b->id = nblk; b->nz_before = -1; b->nz_at_free = -1; b->is_map = 1;
    e = log_ev(AM_MMAP, len, p); if (e) { e->block = nblk; e->is_map = 1; }
    ++nblk;
    return p;
}
void *__wrap_mmap(void *addr, size_t len, int prot, int flags, int fd, off_t off) { return wrap_mmap_common(addr, len, prot, flags, fd, off); }
void *__wrap_mmap64(void *addr, size_t len, int prot, int flags, int fd, off_t off) { return wrap_mmap_common(addr, len, prot, flags, fd, off); }
int __wrap_munmap(void *p, size_t len)
{
    int i;
    for (i = nblk - 1; i >= 0; --i) if (blk[i].is_map && blk[i].live && (uint8_t *)p >= blk[i].ptr && (uint8_t *)p < blk[i].ptr + blk[i].size) {
        am_block *b = &blk[i]; am_event *e = log_ev(AM_FREE, len, p); long first = -1, nz = map_nonzero(p, len, &first);
        if (e) { e->block = b->id; e->is_map = 1; e->nonzero_at_free = nz; e->nonzero_before = b->nz_before; e->first_nonzero = first; if ((uint8_t *)p != b->ptr) e->bad = AM_BAD_INTERIOR; }
        b->nz_at_free = nz;
        if ((uint8_t *)p == b->ptr && len >= b->size) b->live = 0;
        else if ((uint8_t *)p == b->ptr) { b->ptr += len; b->size -= len; if (e) e->bad = AM_BAD_NONE; }     /* partial unmap from the front */
        else if ((uint8_t *)p + len >= b->ptr + b->size) { b->size = (size_t)((uint8_t *)p - b->ptr); if (e) e->bad = AM_BAD_NONE; }   /* ... from the end */
        return __real_munmap(p, len);
    }
    if (monitored()) { am_event *e = log_ev(AM_FREE, len, p); if (e) { e->is_map = 1; e->bad = AM_BAD_FOREIGN; } }
    return __real_munmap(p, len);
}
