/* Common verification-harness support: PRNG, hashing, distinct-case sets,
 * shared-memory counters, crash containment, guard buffers, JSON-lines output.
 * Everything a driver prints on stdout is one JSON object per line. */
#ifndef VERIF_VH_H
#define VERIF_VH_H
#include <stdint.h>
#include <stddef.h>
#include <stdio.h>

/* ---------- PRNG (xoshiro256**, seeded through splitmix64) ---------- */
typedef struct { uint64_t s[4]; } vh_rng;
void vh_rng_seed(vh_rng *r, uint64_t seed, uint64_t stream, uint64_t idx);
uint64_t vh_rand(vh_rng *r);
uint32_t vh_below(vh_rng *r, uint32_t n);          /* uniform in [0,n) ; n>0 */
void vh_rand_bytes(vh_rng *r, void *buf, size_t n);
/* "interesting" bytes: random / all 00 / all FF / walking one / low weight */
void vh_fill_interesting(vh_rng *r, uint8_t *buf, size_t n);
void vh_fill_msb_boundary(vh_rng *r, uint8_t *buf, size_t n);
void vh_related(vh_rng *r, uint8_t *dst, const uint8_t *src, size_t n);
/* a 32-bit length that is far out of range but lands in [lo,hi] when multiplied by 2,4,8,16 or 32 modulo 2^32
   (lengths converted to bits / words / doubled before the range check) */
uint32_t vh_wrap_len(vh_rng *r, uint32_t lo, uint32_t hi);

/* ---------- hashing ---------- */
uint64_t vh_hash(const void *p, size_t n, uint64_t h);  /* FNV-1a continuation */
#define VH_HASH_INIT 1469598103934665603ULL

/* ---------- shared state (survives a crashing child) ---------- */
#define VH_MAX_COUNTERS 256
#define VH_DESC_MAX 4096
typedef struct {
    char name[104];
    uint64_t value;
} vh_counter;
typedef struct {
    vh_counter counters[VH_MAX_COUNTERS];
    uint64_t cur_case;               /* index of the case in progress */
    uint64_t done_upto;              /* cases < this are finished */
    char cur_key[256];               /* violation key if this case crashes */
    char cur_desc[VH_DESC_MAX];      /* JSON value (object) describing the case */
    uint64_t violations;
    uint64_t samples_emitted;
    uint64_t distinct_cap, distinct_n;
    uint64_t in_call;                /* 1 while inside a library call */
    char call_name[96];
    struct { char key[232]; uint64_t n; } vkeys[128];   /* violations per key */
} vh_shared;
extern vh_shared *vh_sh;

void vh_init(int argc, char **argv);           /* parse common args, map shared state */
extern uint64_t vh_seed, vh_cases, vh_first, vh_shard, vh_nshards;
extern int vh_cap;                              /* --cap N back-end cap (default 2) */
extern const char *vh_variant;                  /* --variant name (build variant label) */
extern const char *vh_distinct_file;            /* --distinct-file path */
extern const char *vh_arg_mode;                 /* --mode string (driver specific) */
const char *vh_getarg(const char *name, const char *dflt);

uint64_t *vh_counter_ref(const char *name);
#define VH_COUNT(name, n) do { static uint64_t *c_; if (!c_) c_ = vh_counter_ref(name); *c_ += (uint64_t)(n); } while (0)
#define VH_MAXC(name, v) do { static uint64_t *c_; if (!c_) c_ = vh_counter_ref(name); if ((uint64_t)(v) > *c_) *c_ = (uint64_t)(v); } while (0)

/* Register a case as distinct+nontrivial (hash of its content). Returns 1 if new. */
int vh_distinct(uint64_t h);

/* Emit a violation line.  key: "<prop>:<...>" ; detail/replay: JSON values (objects) or NULL */
void vh_violation(const char *key, const char *detail_json, const char *replay_json);
/* Emit a sample line (first few only).  json: JSON value */
int vh_want_sample(void);
void vh_sample(const char *json);
void vh_note(const char *fmt, ...);            /* {"type":"note","text":...} */

/* Run cases [first, first+count) through fn with fork containment:
 * a signal/abort/non-zero exit of the child in case k produces a violation
 * with the key/desc the case stored in vh_sh, then continues at k+1.
 * fn must call vh_case_begin() first.  Returns number of crashes. */
typedef void (*vh_case_fn)(uint64_t idx);
int vh_run(vh_case_fn fn);
extern void (*vh_child_exit_hook)(void);   /* called in the child after its last case */
void vh_case_begin(uint64_t idx, const char *crash_key, const char *desc_json);
void vh_set_crash_key(const char *crash_key);
void vh_call_begin(const char *name);
void vh_call_end(void);
/* Print the summary line (counters etc.) */
void vh_finish(void);

/* ---------- small string builder for JSON ---------- */
typedef struct { char *p; size_t n, cap; } vh_sb;
void sb_init(vh_sb *s);
void sb_free(vh_sb *s);
void sb_printf(vh_sb *s, const char *fmt, ...);
void sb_hex(vh_sb *s, const void *p, size_t n);       /* appends "hex..." with quotes */
void sb_hexn(vh_sb *s, const void *p, size_t n, size_t maxn); /* truncated with ".." marker */

/* ---------- guard buffers ---------- */
/* Each arena: [PROT_NONE page][data VH_G_DATA bytes][PROT_NONE page]. */
#define VH_G_ARENAS 10
#define VH_G_DATA (64 * 1024)
extern int vh_fork_each_case;
void vh_guard_init(void);
/* Buffer of n bytes in arena a whose end is as close as possible to the
 * trailing guard page subject to (addr % 64) == mis (mis<0: exact end, no
 * alignment constraint).  Slack on both sides is filled with a canary. */
uint8_t *vh_gback(int a, size_t n, int mis);
/* Buffer whose start is as close as possible to the leading guard page
 * subject to the alignment constraint (mis<0: exact start). */
uint8_t *vh_gfront(int a, size_t n, int mis);
/* Verify the canaries of arena a; returns 0 if intact, else 1 and writes
 * the first damaged offset relative to the buffer into *where. */
int vh_gcheck(int a, long *where);
void vh_gprotect(int a, int readonly);   /* PROT_READ on the arena's data pages while a call may only read the buffer placed there */
/* address attribution for the fault handler: returns arena or -1 */
int vh_gwhich(const void *addr, long *rel, int *a_is_guard);
/* make slack addressable again (asan/memcheck builds) */
void vh_gunpoison(int a);

/* fault attribution: installs SIGSEGV/SIGBUS handler that reports the
 * faulting address relative to guard arenas then re-raises. */
void vh_install_fault_handler(void);
/* optional: describe a faulting address that is not in a guard arena; returns non-zero if described */
extern int (*vh_fault_describe_hook)(const void *addr, char *buf, size_t n);

/* ---------- definedness monitor (MSan build / memcheck with -DVH_VALGRIND; no-op elsewhere) ---------- */
int vh_def_available(void);                              /* 1 if this build can test definedness */
long vh_first_undef(const void *p, size_t n);            /* offset of first undefined byte, -1 if all defined / unavailable */
void vh_make_undef(void *p, size_t n);                   /* mark memory as uninitialised */
void vh_make_def(void *p, size_t n);
/* report a violation "<current crash key>:undefined-<what>" if [p,p+n) is not fully defined; returns 1 if reported */
int vh_check_defined(const char *what, const void *p, size_t n);

/* ---------- relocated read-only copies (const-correctness / no-hidden-pointer monitor) ----------
 * vh_ro_copy copies an object into a private page at a fresh address and makes the page PROT_READ: a function that
 * takes the object by pointer-to-const must work on the copy (no pointers into the original, no writes). */
const void *vh_ro_copy(int slot, const void *obj, size_t n);
const void *vh_ro_copy_al(int slot, const void *obj, size_t n, size_t align);
void vh_ro_release(int slot);

/* stack painter: fills ~n bytes of stack below the caller with v */
void vh_paint_stack(int v, size_t n);

#endif
