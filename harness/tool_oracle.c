/* Oracle for C20: computes what an example tool must write, driving the
 * library API directly (whole file in memory, one call) or the reference
 * models.  usage:
 *   tool_oracle <ctr|tweak|ecb> <8|16> <keyhex> <tweak/counter hex or -> <enc|dec> <infile> <outfile> <lib|model>
 */
#include "lib.h"
#include "ref.h"
#include <stdio.h>
#include <stdlib.h>
#include <string.h>

static unsigned hex(const char *s, uint8_t *out, unsigned max)
{
    unsigned n = 0; int hi = -1;
    for (; *s; ++s) {
        int v;
        if (*s >= '0' && *s <= '9') v = *s - '0';
        else if (*s >= 'a' && *s <= 'f') v = *s - 'a' + 10;
        else if (*s >= 'A' && *s <= 'F') v = *s - 'A' + 10;
        else continue;
        if (hi < 0) hi = v; else { if (n < max) out[n++] = (uint8_t)(hi * 16 + v); hi = -1; }
    }
    return n;
}

int main(int argc, char **argv)
{
    uint8_t key[64], tw[16], *buf, *out; unsigned klen, tlen = 0, bb; int dec, model; long n, i, nb;
    FILE *f;
    if (argc != 9) return 2;
    bb = (unsigned)atoi(argv[2]); klen = hex(argv[3], key, 64);
    memset(tw, 0, 16);
    if (strcmp(argv[4], "-")) tlen = hex(argv[4], tw, 16); else tlen = bb;
    dec = !strcmp(argv[5], "dec"); model = !strcmp(argv[8], "model");
    f = fopen(argv[6], "rb"); if (!f) return 2;
    fseek(f, 0, SEEK_END); n = ftell(f); fseek(f, 0, SEEK_SET);
    buf = malloc((size_t)n + 16); out = malloc((size_t)n + 16);
    if (n && fread(buf, 1, (size_t)n, f) != (size_t)n) return 2;
    fclose(f);
    nb = n / bb;
    if (!strcmp(argv[1], "ctr")) {
        if (model) {
            uint8_t c0[16], cb[16], ks[16];
            memset(c0, 0, 16); memcpy(c0 + bb - tlen, tw, tlen);
            for (i = 0; i < n; ++i) {
                if (i % bb == 0) { memcpy(cb, c0, bb); ref_ctr_add(cb, bb, (uint64_t)(i / bb)); ref_skinny_key_crypt(bb, key, klen, 0, cb, ks); }
                out[i] = buf[i] ^ ks[i % bb];
            }
        } else {
            const vh_cipher *c = &vh_ciphers[bb == 16 ? CIPH_S128 : CIPH_S64]; vh_handle h;
            memset(&h, 0, sizeof(h));
            if (!c->ctr_init(&h) || !c->ctr_set_key(&h, key, klen, 0) || !c->ctr_set_counter(&h, tw, tlen) || !c->ctr_encrypt(out, buf, (size_t)n, &h)) return 3;
            c->ctr_cleanup(&h);
        }
    } else {
        int tweak_mode = !strcmp(argv[1], "tweak");
        for (i = 0; i < nb; ++i) {
            uint8_t t[16]; memset(t, 0, 16);
            if (tweak_mode) {      /* tweak = (initial tweak + i) over tlen bytes, big-endian, then zero padded */
                memcpy(t, tw, tlen); ref_ctr_add(t, tlen, (uint64_t)i);
            }
            if (model) {
                if (tweak_mode) ref_skinny_tweaked_crypt(bb, key, klen, t, bb, dec, buf + i * bb, out + i * bb);
                else ref_skinny_key_crypt(bb, key, klen, dec, buf + i * bb, out + i * bb);
            } else if (bb == 16) {
                Skinny128TweakedKey_t tk; Skinny128Key_t pk; const Skinny128Key_t *ks = &pk;
                if (tweak_mode) { if (!skinny128_set_tweaked_key(&tk, key, klen) || !skinny128_set_tweak(&tk, t, 16)) return 3; ks = &tk.ks; }
                else if (!skinny128_set_key(&pk, key, klen)) return 3;
                if (dec) skinny128_ecb_decrypt(out + i * 16, buf + i * 16, ks); else skinny128_ecb_encrypt(out + i * 16, buf + i * 16, ks);
            } else {
                Skinny64TweakedKey_t tk; Skinny64Key_t pk; const Skinny64Key_t *ks = &pk;
                if (tweak_mode) { if (!skinny64_set_tweaked_key(&tk, key, klen) || !skinny64_set_tweak(&tk, t, 8)) return 3; ks = &tk.ks; }
                else if (!skinny64_set_key(&pk, key, klen)) return 3;
                if (dec) skinny64_ecb_decrypt(out + i * 8, buf + i * 8, ks); else skinny64_ecb_encrypt(out + i * 8, buf + i * 8, ks);
            }
        }
        n = nb * bb;
    }
    f = fopen(argv[7], "wb"); if (!f) return 2;
    if (n && fwrite(out, 1, (size_t)n, f) != (size_t)n) return 2;
    fclose(f);
    return 0;
}
