/* Parallel-ECB object histories: generator, interpreter, model. */
#include "hist.h"
#include <string.h>
#include <stdlib.h>

const char *const p_kind_names[P_NKINDS] = {"init", "cleanup", "set_key", "encrypt", "decrypt", "swap_modes"};

typedef struct { int live, keyed; uint8_t key[48]; unsigned klen, rounds; int mode; } pstate;

static int p_valid_args(const vh_cipher *c, const cop *o)
{
    if (o->flags & F_NULL_OBJ) return 0;
    switch (o->kind) {
    case P_INIT: return 1;
    case P_SET_KEY:
        if (o->flags & F_NULL_PTR) return 0;
        if (o->len < c->key_min || o->len > c->key_max) return 0;
        if (c->id == CIPH_MANTIS && (o->rounds < 5 || o->rounds > 8)) return 0;
        return 1;
    case P_ENCRYPT: case P_DECRYPT: return (o->len % c->bb) == 0;
    }
    return 1;
}

static void p_model_pass(phist *h, ctrans *t, int annotate)
{
    const vh_cipher *c = h->c;
    pstate m; int i;
    memset(&m, 0, sizeof(m));
    if (t) { t->out_n = 0; t->backend = -1; t->canary_damage = 0; t->rejected_wrote = 0; }
    for (i = 0; i < h->n; ++i) {
        cop *o = &h->ops[i];
        int ok = p_valid_args(c, o), expect, judged = 0;
        if (o->kind == P_CLEANUP || o->kind == P_SWAP) expect = -1;
        else if (o->kind == P_INIT) expect = ok ? 1 : 0;
        else expect = (ok && m.live) ? 1 : 0;
        if (t) { t->r[i].ret = expect; t->r[i].ooff = (uint32_t)t->out_n; t->r[i].olen = 0; }
        if (!(o->flags & F_NULL_OBJ)) switch (o->kind) {
        case P_INIT: memset(&m, 0, sizeof(m)); m.live = 1; break;
        case P_CLEANUP: memset(&m, 0, sizeof(m)); break;
        case P_SWAP: if (m.live) m.mode = !m.mode; break;
        case P_SET_KEY:
            if (expect == 1) {
                m.keyed = 1; m.klen = o->len; m.rounds = o->rounds; m.mode = (h->mode[i] == MANTIS_ENCRYPT);
                memset(m.key, 0, sizeof(m.key)); memcpy(m.key, h->pool + o->doff, o->len);
            }
            break;
        case P_ENCRYPT: case P_DECRYPT:
            if (expect == 1 && m.keyed && o->len) {
                judged = 1;
                if (t) {
                    uint32_t b, nb = o->len / c->bb;
                    const uint8_t *in = h->pool + o->doff, *tw = in + o->len;
                    for (b = 0; b < nb; ++b) {
                        uint8_t *dst = t->out + t->out_n + b * c->bb;
                        if (c->id == CIPH_MANTIS) {
                            if (m.mode) ref_mantis_encrypt(m.rounds, m.key, tw + 8 * b, in + 8 * b, dst);
                            else ref_mantis_decrypt(m.rounds, m.key, tw + 8 * b, in + 8 * b, dst);
                        } else ref_skinny_key_crypt(c->bb, m.key, m.klen, o->kind == P_DECRYPT, in + b * c->bb, dst);
                    }
                    t->r[i].olen = o->len; t->out_n += o->len;
                }
            }
            break;
        }
        if (annotate) { o->expect = (int8_t)expect; o->judged = (uint8_t)judged; }
    }
}
void phist_model(const phist *h, ctrans *t) { p_model_pass((phist *)h, t, 0); }

static cop *padd(phist *h, int kind, const char *cls)
{
    cop *o;
    if (h->n >= H_MAXOPS) return NULL;
    o = &h->ops[h->n]; h->mode[h->n] = 0; h->n++;
    memset(o, 0, sizeof(*o));
    o->kind = (uint8_t)kind; o->mis_a = o->mis_b = -1; o->cls = cls; o->expect = -1;
    return o;
}
static void pplace(cop *o, vh_rng *r, unsigned g)
{
    if (g & G_MISALIGN) {
        o->mis_a = vh_below(r, 4) ? (int16_t)vh_below(r, 64) : -1;
        o->mis_b = vh_below(r, 4) ? (int16_t)vh_below(r, 64) : -1;
        if (!vh_below(r, 6)) o->flags |= F_FRONT;
    }
}
static void pgen_key(phist *h, vh_rng *r, unsigned g)
{
    const vh_cipher *c = h->c;
    cop *o = padd(h, P_SET_KEY, "set_key");
    uint8_t buf[64];
    if (!o) return;
    if (c->id == CIPH_MANTIS) o->len = 16;
    else if ((g & G_INBETWEEN_KEYS) && !vh_below(r, 3)) o->len = c->bb + vh_below(r, c->key_max - c->bb + 1);
    else o->len = c->bb * (1 + vh_below(r, 3));
    o->rounds = c->id == CIPH_MANTIS ? 5 + vh_below(r, 4) : 0;
    h->mode[h->n - 1] = vh_below(r, 2) ? MANTIS_ENCRYPT : MANTIS_DECRYPT;
    vh_fill_interesting(r, buf, o->len);
    if (!vh_below(r, 5)) {      /* a key this object has had before (same bytes; length, rounds and mode drawn afresh): "already loaded" shortcuts must still honour everything that changed */
        int k, cand[16], nc = 0;
        for (k = 0; k < h->n - 1 && nc < 16; ++k) if (h->ops[k].kind == P_SET_KEY && !(h->ops[k].flags & F_NULL_PTR) && h->ops[k].dlen >= c->bb && !h->ops[k].injected) cand[nc++] = k;
        if (nc) { const cop *q = &h->ops[cand[vh_below(r, (uint32_t)nc)]]; unsigned n = q->dlen < o->len ? q->dlen : o->len; if (vh_below(r, 2)) o->len = q->len <= c->key_max ? q->len : o->len; n = q->dlen < o->len ? q->dlen : o->len; memcpy(buf, h->pool + q->doff, n); o->cls = "set_key(a key used before)";
                  if (c->id != CIPH_MANTIS && vh_below(r, 2)) {      /* the earlier key extended / cut by zero bytes across a primary size: a different variant whose zero-padded bytes are the same */
                      unsigned m = q->dlen; while (m > c->bb && h->pool[q->doff + m - 1] == 0) --m;      /* significant bytes of the earlier key */
                      o->len = c->bb * (1 + vh_below(r, 3)); if (vh_below(r, 3) == 0 && o->len < c->key_max) o->len += 1 + vh_below(r, c->bb - 1);
                      if (o->len < m) o->len = (m + c->bb - 1) / c->bb * c->bb;
                      if (o->len > c->key_max) o->len = c->key_max;
                      memset(buf, 0, sizeof(buf)); memcpy(buf, h->pool + q->doff, m < o->len ? m : o->len); o->cls = "set_key(an earlier key zero-extended or cut to another size)"; } }
    }
    o->doff = (uint32_t)h->pool_n; memcpy(h->pool + h->pool_n, buf, o->len); h->pool_n += o->len; o->dlen = o->len;
    pplace(o, r, g);
}
static void pgen_crypt(phist *h, vh_rng *r, unsigned g, uint32_t *budget)
{
    const vh_cipher *c = h->c;
    int dec = c->id != CIPH_MANTIS && vh_below(r, 2);
    cop *o = padd(h, dec ? P_DECRYPT : P_ENCRYPT, dec ? "decrypt" : (c->id == CIPH_MANTIS ? "crypt" : "encrypt"));
    uint32_t nb, bytes, per = c->id == CIPH_MANTIS ? 2 : 1;
    if (!o) return;
    switch (vh_below(r, 8)) {
    case 0: nb = 0; break;
    case 1: nb = 1 + vh_below(r, 3); break;
    case 2: nb = 4 - 1 + vh_below(r, 3); break;
    case 3: nb = 8 - 1 + vh_below(r, 3); break;
    case 4: nb = 16 - 1 + vh_below(r, 3); break;
    case 5: nb = vh_below(r, 300); break;
    default: nb = vh_below(r, 28); break;
    }
    bytes = nb * c->bb;
    while (bytes * per > *budget || h->pool_n + bytes * per > H_POOL) { nb /= 2; bytes = nb * c->bb; }
    o->len = bytes; o->dlen = bytes * per;
    o->doff = (uint32_t)h->pool_n;
    if (vh_below(r, 8)) vh_rand_bytes(r, h->pool + h->pool_n, o->dlen); else memset(h->pool + h->pool_n, vh_below(r, 2) ? 0 : 0xFF, o->dlen);
    if (per == 2 && bytes && vh_below(r, 5) < 2) {
        /* structured Mantis tweak arrays: all tweaks equal a base tweak except inside a window of 1..4 bytes, which holds the
           block number (big- or little-endian, from a random start) or random bytes: sector/block-number tweaks, and arrays whose
           tweaks agree in most byte positions */
        uint8_t base[8], *tw = h->pool + h->pool_n + bytes; unsigned w = 1 + vh_below(r, 4), pos = vh_below(r, 9 - w), kind = vh_below(r, 4), b, k;
        uint32_t start = vh_below(r, 3) ? vh_below(r, 1000) : vh_rand(r) & 0xFFFFFFFFu;
        vh_fill_interesting(r, base, 8);
        for (b = 0; b < nb; ++b) {
            uint32_t v = kind == 3 ? (uint32_t)vh_rand(r) : start + b;
            memcpy(tw + 8 * b, base, 8);
            if (kind == 2) continue;                                   /* one tweak for every block */
            for (k = 0; k < w; ++k) tw[8 * b + pos + k] = (uint8_t)(kind == 0 ? v >> (8 * (w - 1 - k)) : v >> (8 * k));
        }
    }
    h->pool_n += o->dlen;
    if (!vh_below(r, 3)) o->flags |= F_INPLACE;
    if (per == 2 && bytes) {     /* Mantis: aliasing of the tweak array with the data buffers */
        unsigned a = vh_below(r, 12);
        if (a == 0) { o->flags |= F_TWEAK_IN; memcpy(h->pool + o->doff + bytes, h->pool + o->doff, bytes); }
        else if (a == 1 && !(o->flags & F_INPLACE)) o->flags |= F_TWEAK_OUT;
    }
    pplace(o, r, g);
    *budget -= bytes * per;
}
static void pmake_invalid(phist *h, cop *o, uint32_t *mode, vh_rng *r)
{
    const vh_cipher *c = h->c;
    static const uint32_t big[] = {0xFFFFFFFFu, 0x80000000u, 0x10000u, 0x7FFFFFFFu, 257};
    uint32_t cap;
    memset(o, 0, sizeof(*o));
    o->mis_a = o->mis_b = -1; o->injected = 1; o->expect = 0; *mode = MANTIS_ENCRYPT; o->rounds = 5 + vh_below(r, 4);
    if (!vh_below(r, 5)) {
        static const int kinds[] = {P_INIT, P_SET_KEY, P_ENCRYPT, P_DECRYPT, P_CLEANUP, P_SWAP};
        int kind = kinds[vh_below(r, 6)];
        if (c->id == CIPH_MANTIS && kind == P_DECRYPT) kind = P_ENCRYPT;
        if (c->id != CIPH_MANTIS && kind == P_SWAP) kind = P_CLEANUP;
        o->kind = (uint8_t)kind; o->flags = F_NULL_OBJ; o->cls = kind == P_INIT ? "init(null-object)" : "null-object";
        o->len = kind == P_SET_KEY ? 16 : c->bb * 2;
        o->dlen = o->len * (kind != P_SET_KEY && c->id == CIPH_MANTIS ? 2 : 1);
        o->doff = (uint32_t)h->pool_n; vh_rand_bytes(r, h->pool + h->pool_n, o->dlen); h->pool_n += o->dlen;
        if (kind == P_CLEANUP || kind == P_SWAP) o->expect = -1;
        return;
    }
    if (vh_below(r, 2)) {
        o->kind = P_SET_KEY;
        switch (vh_below(r, c->id == CIPH_MANTIS ? 7 : 5)) {
        case 0: o->flags |= F_NULL_PTR; o->len = c->key_min; o->cls = "null-key"; break;
        case 1: o->len = 0; o->cls = "key-len-0"; break;
        case 2: o->len = c->key_min - 1 - vh_below(r, 3); o->cls = "key-too-short"; break;
        case 3: o->len = c->key_max + 1 + vh_below(r, 3); o->cls = "key-too-long"; break;
        case 4: o->len = vh_below(r, 2) ? big[vh_below(r, 5)] : vh_wrap_len(r, c->key_min, c->key_max); o->cls = "key-len-huge"; break;
        case 5: o->len = 16; o->rounds = vh_below(r, 5); o->cls = "mantis-rounds-low"; break;
        default: o->len = 16; o->rounds = vh_below(r, 3) == 0 ? 9 + vh_below(r, 4) : (vh_below(r, 2) ? big[vh_below(r, 5)] : ((1 + vh_below(r, 3)) << (8 * (1 + vh_below(r, 3)))) + 5 + vh_below(r, 4)); o->cls = "mantis-rounds-high"; break;   /* also values whose low 8/16/24 bits are a legal count */
        }
        cap = o->len > 64 ? 1 + vh_below(r, 64) : o->len;
        o->dlen = (o->flags & F_NULL_PTR) ? 0 : cap;
    } else {
        o->kind = (c->id != CIPH_MANTIS && vh_below(r, 2)) ? P_DECRYPT : P_ENCRYPT;
        o->len = c->bb * vh_below(r, 12) + 1 + vh_below(r, c->bb - 1);   /* not a whole number of blocks */
        o->cls = "size-not-multiple-of-block";
        o->dlen = o->len * (c->id == CIPH_MANTIS ? 2 : 1);
    }
    o->doff = (uint32_t)h->pool_n; vh_rand_bytes(r, h->pool + h->pool_n, o->dlen); h->pool_n += o->dlen;
}

void phist_gen(phist *h, const vh_cipher *c, vh_rng *r, unsigned g)
{
    int target = 3 + (int)vh_below(r, 30), live = 0, keyed = 0, guard = 0;
    uint32_t budget = (g & G_SMALL) ? 2000 : 12000;
    h->c = c; h->n = 0; h->pool_n = 0;
    if ((g & G_LIFECYCLE) && !vh_below(r, 6)) {
        int k = 1 + (int)vh_below(r, 3);
        while (k--) switch (vh_below(r, 4)) {
            case 0: pgen_key(h, r, g); break;
            case 1: pgen_crypt(h, r, g | G_SMALL, &budget);
                    if (!vh_below(r, 3)) { cop *o = &h->ops[h->n - 1]; o->flags |= (uint8_t)(vh_below(r, 2) ? F_NULL_IN : 0) | (uint8_t)(vh_below(r, 2) ? F_NULL_OUT : 0); if (vh_below(r, 2)) { o->len = 0; o->dlen = 0; } o->cls = "crypt(zeroed,null-or-empty)"; }
                    break;
            case 2: if (c->id == CIPH_MANTIS) { padd(h, P_SWAP, "swap(zeroed)"); break; } /* fallthrough */
            default: padd(h, P_CLEANUP, "cleanup(zeroed)"); break;
        }
    }
    while (h->n < target && h->n < H_MAXOPS - 8 && ++guard < 1000) {
        uint32_t x;
        if (!live) { padd(h, P_INIT, "init"); live = 1; keyed = 0; continue; }
        if (!keyed && !((g & G_UNKEYED) && !vh_below(r, 4))) { pgen_key(h, r, g); keyed = 1; continue; }
        x = vh_below(r, 100);
        if (x < 65) pgen_crypt(h, r, g, &budget);
        else if (x < 78) { pgen_key(h, r, g); keyed = 1; }
        else if (x < 90) { if (c->id == CIPH_MANTIS) padd(h, P_SWAP, "swap_modes"); }
        else if (g & G_LIFECYCLE) {
            int k;
            padd(h, P_CLEANUP, "cleanup"); live = 0;
            k = (int)vh_below(r, 4);
            while (k--) switch (vh_below(r, 4)) {
                case 0: pgen_key(h, r, g); h->ops[h->n - 1].cls = "set_key(after-cleanup)"; break;
                case 1: pgen_crypt(h, r, g | G_SMALL, &budget); h->ops[h->n - 1].cls = "crypt(after-cleanup)";
                        /* on a dead object the call must fail whatever else is passed: empty requests, NULL buffers */
                        if (!vh_below(r, 3)) { cop *o = &h->ops[h->n - 1]; o->flags |= (uint8_t)(vh_below(r, 2) ? F_NULL_IN : 0) | (uint8_t)(vh_below(r, 2) ? F_NULL_OUT : 0); if (vh_below(r, 2)) { o->len = 0; o->dlen = 0; } o->cls = "crypt(after-cleanup,null-or-empty)"; }
                        break;
                case 2: if (c->id == CIPH_MANTIS) { padd(h, P_SWAP, "swap(after-cleanup)"); break; } /* fallthrough */
                default: padd(h, P_CLEANUP, "cleanup(again)"); break;
            }
        }
    }
    if (g & G_INVALID) {
        int k = 1 + (int)vh_below(r, 5);
        while (k-- && h->n < H_MAXOPS - 2) {
            int pos = (int)vh_below(r, (uint32_t)h->n + 1);
            cop inv; uint32_t mode;
            pmake_invalid(h, &inv, &mode, r);
            memmove(&h->ops[pos + 1], &h->ops[pos], (size_t)(h->n - pos) * sizeof(cop));
            memmove(&h->mode[pos + 1], &h->mode[pos], (size_t)(h->n - pos) * sizeof(uint32_t));
            h->ops[pos] = inv; h->mode[pos] = mode; h->n++;
        }
    }
    padd(h, P_CLEANUP, "cleanup(final)");
    p_model_pass(h, NULL, 1);
}

void phist_strip_invalid(const phist *h, phist *out, int *map)
{
    int i;
    out->c = h->c; out->n = 0; out->pool_n = h->pool_n;
    memcpy(out->pool, h->pool, h->pool_n);
    for (i = 0; i < h->n; ++i) {
        const cop *o = &h->ops[i];
        if (o->expect == 0) continue;
        if ((o->kind == P_CLEANUP || o->kind == P_SWAP) && (o->flags & F_NULL_OBJ)) continue;
        if (map) map[out->n] = i;
        out->mode[out->n] = h->mode[i];
        out->ops[out->n++] = *o;
    }
}

static uint8_t *pl(int arena, const cop *o, int which, size_t n)
{
    int mis = which ? o->mis_b : o->mis_a;
    return (o->flags & F_FRONT) ? vh_gfront(arena, n, mis) : vh_gback(arena, n, mis);
}

void phist_exec(const phist *h, int i, vh_obj *ob, ctrans *t, const char *prefix)
{
    const vh_cipher *c = h->c;
    char key[256];
    const cop *o = &h->ops[i];
    vh_handle *obj = (o->flags & F_NULL_OBJ) ? NULL : &ob->H;
    int ret = -1, ua = 0, ub = 0, ut = 0;
    long where = 0;
    snprintf(key, sizeof(key), "%s:%s", prefix, o->cls ? o->cls : p_kind_names[o->kind]);
    vh_set_crash_key(key);
    t->r[i].ooff = (uint32_t)t->out_n; t->r[i].olen = 0;
    if (vh_pre_call_hook) vh_pre_call_hook(ob, o->kind == P_CLEANUP && obj, i);
    switch (o->kind) {
    case P_INIT:
        vh_call_begin("parallel_ecb_init"); ret = c->par_init(obj); vh_call_end();
        if (obj && ret) { ob->live = 1; if (t->backend < 0) t->backend = c->par_backend(&ob->H); }
        break;
    case P_CLEANUP:
        if (obj && !ob->live && vh_ro_inert_cleanup) {
            /* cleanup of a zeroed / already cleaned-up object must do nothing: run it on a PROT_READ copy of the handle */
            vh_handle *ro = (vh_handle *)vh_ro_copy(1, &ob->H, sizeof(ob->H));
            vh_call_begin("parallel_ecb_cleanup(inert, read-only handle)"); c->par_cleanup(ro); vh_call_end();
            vh_ro_release(1);
        } else { vh_call_begin("parallel_ecb_cleanup"); c->par_cleanup(obj); vh_call_end(); }
        if (obj) ob->live = 0;
        break;
    case P_SWAP:
        vh_call_begin("parallel_ecb_swap_modes"); c->par_swap(obj); vh_call_end();
        break;
    case P_SET_KEY: {
        uint8_t *a = NULL;
        if (!(o->flags & F_NULL_PTR)) { a = pl(0, o, 0, o->dlen); ua = 1; memcpy(a, h->pool + o->doff, o->dlen); vh_gprotect(0, 1); }
        vh_call_begin("parallel_ecb_set_key"); ret = c->par_set_key(obj, a, o->len, o->rounds, (int)h->mode[i]); vh_call_end();
        break; }
    case P_ENCRYPT: case P_DECRYPT: {
        uint8_t *in = pl(1, o, 0, o->len), *out, *tw = NULL;
        ua = 2;
        memcpy(in, h->pool + o->doff, o->len);
        if (o->flags & F_INPLACE) out = in; else { out = pl(2, o, 1, o->len); ub = 1; memset(out, 0xEE, o->len); vh_make_undef(out, o->len); }
        if (c->id == CIPH_MANTIS && (o->flags & F_TWEAK_IN)) tw = in;
        else if (c->id == CIPH_MANTIS && (o->flags & F_TWEAK_OUT) && !(o->flags & F_INPLACE)) { tw = out; vh_make_def(out, o->len); memcpy(out, h->pool + o->doff + o->len, o->len); }
        else if (c->id == CIPH_MANTIS) { tw = pl(3, o, 0, o->len); ut = 1; memcpy(tw, h->pool + o->doff + o->len, o->len); }
        if (!(o->flags & F_INPLACE)) vh_gprotect(1, 1);       /* out of place: input (and tweak) pages are read-only during the call */
        if (ut) vh_gprotect(3, 1);
        vh_call_begin(o->kind == P_DECRYPT ? "parallel_ecb_decrypt" : "parallel_ecb_encrypt");
        ret = (o->kind == P_DECRYPT ? c->par_decrypt : c->par_encrypt)((o->flags & F_NULL_OUT) ? NULL : out, (o->flags & F_NULL_IN) ? NULL : in, tw, o->len, obj);
        vh_call_end();
        if (!ret && !(o->flags & F_NULL_OUT) && !t->rejected_wrote && !((o->flags & F_TWEAK_OUT) && !(o->flags & F_INPLACE))) {      /* a refused call leaves the caller's output buffer as it was */
            uint32_t k; const uint8_t *orig = h->pool + o->doff;
            if (!(o->flags & F_INPLACE)) vh_make_def(out, o->len);
            for (k = 0; k < o->len; ++k) if (out[k] != ((o->flags & F_INPLACE) ? orig[k] : 0xEE)) { t->rejected_wrote = i + 1; break; }
        }
        if (ret && t->out_n + o->len <= H_OUT) { memcpy(t->out + t->out_n, out, o->len); t->r[i].olen = o->len; t->out_n += o->len; }
        break; }
    }
    if (vh_post_call_hook) vh_post_call_hook(ob, i);
    t->r[i].ret = ret;
    if (vh_def_available()) {
        if (o->kind != P_CLEANUP && o->kind != P_SWAP) vh_check_defined("return-value", &ret, sizeof(ret));
        if (t->r[i].olen) vh_check_defined("output", t->out + t->r[i].ooff, t->r[i].olen);
        if (obj && ob->live) vh_check_defined("handle", &ob->H, sizeof(ob->H));
    }
    if (ua && vh_gcheck(ua == 2 ? 1 : 0, &where) && !t->canary_damage) { t->canary_damage = i + 1; t->canary_where = where; }
    if (ub && vh_gcheck(2, &where) && !t->canary_damage) { t->canary_damage = i + 1; t->canary_where = where; }
    if (ut && vh_gcheck(3, &where) && !t->canary_damage) { t->canary_damage = i + 1; t->canary_where = where; }
}

void phist_run(const phist *h, ctrans *t, const char *prefix)
{
    vh_obj ob;
    int i;
    memset(&ob, 0, sizeof(ob));
    ctrans_reset(t);
    for (i = 0; i < h->n; ++i) phist_exec(h, i, &ob, t, prefix);
    if (ob.live) { vh_set_crash_key(prefix); vh_call_begin("parallel_ecb_cleanup"); h->c->par_cleanup(&ob.H); vh_call_end(); }
}

void phist_json(const phist *h, vh_sb *s)
{
    int i;
    sb_printf(s, "{\"cipher\":\"%s\",\"object\":\"parallel_ecb\",\"ops\":[", h->c->name);
    for (i = 0; i < h->n; ++i) {
        const cop *o = &h->ops[i];
        sb_printf(s, "%s{\"op\":\"%s\"", i ? "," : "", p_kind_names[o->kind]);
        if (o->cls && strcmp(o->cls, p_kind_names[o->kind])) sb_printf(s, ",\"class\":\"%s\"", o->cls);
        if (o->kind == P_SET_KEY || o->kind == P_ENCRYPT || o->kind == P_DECRYPT) {
            sb_printf(s, ",\"len\":%u", o->len);
            if (o->flags & F_TWEAK_IN) sb_printf(s, ",\"tweak_array\":\"is the input buffer\"");
            if ((o->flags & F_TWEAK_OUT) && !(o->flags & F_INPLACE)) sb_printf(s, ",\"tweak_array\":\"lies in the output buffer\"");
            if (h->c->id == CIPH_MANTIS && o->kind == P_SET_KEY) sb_printf(s, ",\"rounds\":%u,\"mode\":%u", o->rounds, h->mode[i]);
            if (o->flags & F_NULL_PTR) sb_printf(s, ",\"data\":null");
            else { sb_printf(s, ",\"data\":"); sb_hexn(s, h->pool + o->doff, o->dlen, 40); }
        }
        if (o->flags & ~F_NULL_PTR) sb_printf(s, ",\"flags\":%u", o->flags);
        if (o->mis_a >= 0 || o->mis_b >= 0) sb_printf(s, ",\"mis\":[%d,%d]", o->mis_a, o->mis_b);
        sb_printf(s, ",\"expect\":%d%s}", o->expect, o->judged ? ",\"judged\":true" : "");
    }
    sb_printf(s, "]}");
}

uint64_t phist_hash(const phist *h)
{
    uint64_t x = VH_HASH_INIT ^ 0x55;
    int i;
    x = vh_hash(&h->c->id, sizeof(int), x);
    for (i = 0; i < h->n; ++i) {
        const cop *o = &h->ops[i];
        x = vh_hash(&o->kind, 1, x); x = vh_hash(&o->flags, 1, x); x = vh_hash(&o->len, 4, x);
        x = vh_hash(&o->rounds, 4, x); x = vh_hash(&h->mode[i], 4, x); x = vh_hash(&o->mis_a, 2, x); x = vh_hash(&o->mis_b, 2, x);
        x = vh_hash(h->pool + o->doff, o->dlen, x);
    }
    return x;
}

void phist_annotate(phist *h) { p_model_pass(h, NULL, 1); }
