#include "lib.h"
#include <string.h>

const char *const vh_backend_names[3] = {"generic", "vec128", "vec256"};

/* back-end tables / functions exported by the library; weak so that a
 * refactor that renames them makes identification inconclusive, not wrong */
extern const char _skinny128_ctr_vec128[] __attribute__((weak));
extern const char _skinny128_ctr_vec256[] __attribute__((weak));
extern const char _skinny64_ctr_vec128[] __attribute__((weak));
extern const char _mantis_ctr_vec128[] __attribute__((weak));
extern void _skinny128_parallel_encrypt_vec128(void) __attribute__((weak));
extern void _skinny128_parallel_encrypt_vec256(void) __attribute__((weak));
extern void _skinny64_parallel_encrypt_vec128(void) __attribute__((weak));
extern void _mantis_parallel_crypt_vec128(void) __attribute__((weak));

/* ---- skinny128 ---- */
static int s128_ctr_init(vh_handle *h) { return skinny128_ctr_init((Skinny128CTR_t *)h); }
static void s128_ctr_cleanup(vh_handle *h) { skinny128_ctr_cleanup((Skinny128CTR_t *)h); }
static int s128_ctr_set_key(vh_handle *h, const void *k, unsigned n, unsigned r) { (void)r; return skinny128_ctr_set_key((Skinny128CTR_t *)h, k, n); }
static int s128_ctr_set_tkey(vh_handle *h, const void *k, unsigned n) { return skinny128_ctr_set_tweaked_key((Skinny128CTR_t *)h, k, n); }
static int s128_ctr_set_tweak(vh_handle *h, const void *t, unsigned n) { return skinny128_ctr_set_tweak((Skinny128CTR_t *)h, t, n); }
static int s128_ctr_set_counter(vh_handle *h, const void *c, unsigned n) { return skinny128_ctr_set_counter((Skinny128CTR_t *)h, c, n); }
static int s128_ctr_encrypt(void *o, const void *i, size_t n, vh_handle *h) { return skinny128_ctr_encrypt(o, i, n, (Skinny128CTR_t *)h); }
static int s128_par_init(vh_handle *h) { return skinny128_parallel_ecb_init((Skinny128ParallelECB_t *)h); }
static void s128_par_cleanup(vh_handle *h) { skinny128_parallel_ecb_cleanup((Skinny128ParallelECB_t *)h); }
static int s128_par_set_key(vh_handle *h, const void *k, unsigned n, unsigned r, int m) { (void)r; (void)m; return skinny128_parallel_ecb_set_key((Skinny128ParallelECB_t *)h, k, n); }
static int s128_par_encrypt(void *o, const void *i, const void *t, size_t n, const vh_handle *h) { (void)t; return skinny128_parallel_ecb_encrypt(o, i, n, (const Skinny128ParallelECB_t *)h); }
static int s128_par_decrypt(void *o, const void *i, const void *t, size_t n, const vh_handle *h) { (void)t; return skinny128_parallel_ecb_decrypt(o, i, n, (const Skinny128ParallelECB_t *)h); }
static int s128_ctr_backend(const vh_handle *h)
{
    if (!h->vtable) return -1;
    if (!_skinny128_ctr_vec128 || !_skinny128_ctr_vec256) return -1;
    if (h->vtable == (const void *)_skinny128_ctr_vec256) return BE_VEC256;
    if (h->vtable == (const void *)_skinny128_ctr_vec128) return BE_VEC128;
    return BE_GENERIC;
}
static int s128_par_backend(const vh_handle *h)
{
    void (*f)(void);
    if (!h->vtable) return BE_GENERIC;
    if (!_skinny128_parallel_encrypt_vec128 || !_skinny128_parallel_encrypt_vec256) return -1;
    memcpy(&f, h->vtable, sizeof(f));
    if (f == _skinny128_parallel_encrypt_vec256) return BE_VEC256;
    if (f == _skinny128_parallel_encrypt_vec128) return BE_VEC128;
    return -1;
}

/* ---- skinny64 ---- */
static int s64_ctr_init(vh_handle *h) { return skinny64_ctr_init((Skinny64CTR_t *)h); }
static void s64_ctr_cleanup(vh_handle *h) { skinny64_ctr_cleanup((Skinny64CTR_t *)h); }
static int s64_ctr_set_key(vh_handle *h, const void *k, unsigned n, unsigned r) { (void)r; return skinny64_ctr_set_key((Skinny64CTR_t *)h, k, n); }
static int s64_ctr_set_tkey(vh_handle *h, const void *k, unsigned n) { return skinny64_ctr_set_tweaked_key((Skinny64CTR_t *)h, k, n); }
static int s64_ctr_set_tweak(vh_handle *h, const void *t, unsigned n) { return skinny64_ctr_set_tweak((Skinny64CTR_t *)h, t, n); }
static int s64_ctr_set_counter(vh_handle *h, const void *c, unsigned n) { return skinny64_ctr_set_counter((Skinny64CTR_t *)h, c, n); }
static int s64_ctr_encrypt(void *o, const void *i, size_t n, vh_handle *h) { return skinny64_ctr_encrypt(o, i, n, (Skinny64CTR_t *)h); }
static int s64_par_init(vh_handle *h) { return skinny64_parallel_ecb_init((Skinny64ParallelECB_t *)h); }
static void s64_par_cleanup(vh_handle *h) { skinny64_parallel_ecb_cleanup((Skinny64ParallelECB_t *)h); }
static int s64_par_set_key(vh_handle *h, const void *k, unsigned n, unsigned r, int m) { (void)r; (void)m; return skinny64_parallel_ecb_set_key((Skinny64ParallelECB_t *)h, k, n); }
static int s64_par_encrypt(void *o, const void *i, const void *t, size_t n, const vh_handle *h) { (void)t; return skinny64_parallel_ecb_encrypt(o, i, n, (const Skinny64ParallelECB_t *)h); }
static int s64_par_decrypt(void *o, const void *i, const void *t, size_t n, const vh_handle *h) { (void)t; return skinny64_parallel_ecb_decrypt(o, i, n, (const Skinny64ParallelECB_t *)h); }
static int s64_ctr_backend(const vh_handle *h)
{
    if (!h->vtable) return -1;
    if (!_skinny64_ctr_vec128) return -1;
    if (h->vtable == (const void *)_skinny64_ctr_vec128) return BE_VEC128;
    return BE_GENERIC;
}
static int s64_par_backend(const vh_handle *h)
{
    void (*f)(void);
    if (!h->vtable) return BE_GENERIC;
    if (!_skinny64_parallel_encrypt_vec128) return -1;
    memcpy(&f, h->vtable, sizeof(f));
    if (f == _skinny64_parallel_encrypt_vec128) return BE_VEC128;
    return -1;
}

/* ---- mantis ---- */
static int m_ctr_init(vh_handle *h) { return mantis_ctr_init((MantisCTR_t *)h); }
static void m_ctr_cleanup(vh_handle *h) { mantis_ctr_cleanup((MantisCTR_t *)h); }
static int m_ctr_set_key(vh_handle *h, const void *k, unsigned n, unsigned r) { return mantis_ctr_set_key((MantisCTR_t *)h, k, n, r); }
static int m_ctr_set_tweak(vh_handle *h, const void *t, unsigned n) { return mantis_ctr_set_tweak((MantisCTR_t *)h, t, n); }
static int m_ctr_set_counter(vh_handle *h, const void *c, unsigned n) { return mantis_ctr_set_counter((MantisCTR_t *)h, c, n); }
static int m_ctr_encrypt(void *o, const void *i, size_t n, vh_handle *h) { return mantis_ctr_encrypt(o, i, n, (MantisCTR_t *)h); }
static int m_par_init(vh_handle *h) { return mantis_parallel_ecb_init((MantisParallelECB_t *)h); }
static void m_par_cleanup(vh_handle *h) { mantis_parallel_ecb_cleanup((MantisParallelECB_t *)h); }
static int m_par_set_key(vh_handle *h, const void *k, unsigned n, unsigned r, int m) { return mantis_parallel_ecb_set_key((MantisParallelECB_t *)h, k, n, r, m); }
static int m_par_crypt(void *o, const void *i, const void *t, size_t n, const vh_handle *h) { return mantis_parallel_ecb_crypt(o, i, t, n, (const MantisParallelECB_t *)h); }
static void m_par_swap(vh_handle *h) { mantis_parallel_ecb_swap_modes((MantisParallelECB_t *)h); }
static int m_ctr_backend(const vh_handle *h)
{
    if (!h->vtable) return -1;
    if (!_mantis_ctr_vec128) return -1;
    if (h->vtable == (const void *)_mantis_ctr_vec128) return BE_VEC128;
    return BE_GENERIC;
}
static int m_par_backend(const vh_handle *h)
{
    void (*f)(void);
    if (!h->vtable) return BE_GENERIC;
    if (!_mantis_parallel_crypt_vec128) return -1;
    memcpy(&f, h->vtable, sizeof(f));
    if (f == _mantis_parallel_crypt_vec128) return BE_VEC128;
    return -1;
}

const vh_cipher vh_ciphers[CIPH_N] = {
    {"skinny128", CIPH_S128, 16, 16, 48, 32, 1,
     s128_ctr_init, s128_ctr_cleanup, s128_ctr_set_key, s128_ctr_set_tkey, s128_ctr_set_tweak, s128_ctr_set_counter, s128_ctr_encrypt,
     s128_par_init, s128_par_cleanup, s128_par_set_key, s128_par_encrypt, s128_par_decrypt, NULL,
     s128_ctr_backend, s128_par_backend},
    {"skinny64", CIPH_S64, 8, 8, 24, 16, 1,
     s64_ctr_init, s64_ctr_cleanup, s64_ctr_set_key, s64_ctr_set_tkey, s64_ctr_set_tweak, s64_ctr_set_counter, s64_ctr_encrypt,
     s64_par_init, s64_par_cleanup, s64_par_set_key, s64_par_encrypt, s64_par_decrypt, NULL,
     s64_ctr_backend, s64_par_backend},
    {"mantis", CIPH_MANTIS, 8, 16, 16, 0, 0,
     m_ctr_init, m_ctr_cleanup, m_ctr_set_key, NULL, m_ctr_set_tweak, m_ctr_set_counter, m_ctr_encrypt,
     m_par_init, m_par_cleanup, m_par_set_key, m_par_crypt, NULL, m_par_swap,
     m_ctr_backend, m_par_backend},
};

void vh_set_cap(int cap) { _skinny_verif_backend_cap = cap; }

int vh_max_backend(const vh_cipher *c)
{
    vh_handle h;
    int be, save = _skinny_verif_backend_cap;
    memset(&h, 0, sizeof(h));
    _skinny_verif_backend_cap = 2;
    if (!c->ctr_init(&h)) { _skinny_verif_backend_cap = save; return -1; }
    be = c->ctr_backend(&h);
    c->ctr_cleanup(&h);
    _skinny_verif_backend_cap = save;
    return be;
}
