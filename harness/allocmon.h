#ifndef VERIF_ALLOCMON_H
#define VERIF_ALLOCMON_H
#include <stddef.h>
#include <stdint.h>

#define AM_MAX_EVENTS 8192
#define AM_MAX_BLOCKS 4096
enum { AM_MALLOC = 1, AM_CALLOC, AM_REALLOC, AM_MEMALIGN, AM_FREE, AM_FREE_NULL, AM_MMAP };   /* a munmap of a library mapping is logged as AM_FREE with is_map set */
enum { AM_BAD_NONE = 0, AM_BAD_DOUBLE, AM_BAD_FOREIGN, AM_BAD_INTERIOR, AM_BAD_DECOY, AM_BAD_OVERRUN };

typedef struct {
    int seq, op, obj, opidx, block, bad, failed_by_injection, is_map;
    size_t size;
    void *ptr;
    long nonzero_at_free, nonzero_before, first_nonzero;
    char call[48];
} am_event;

typedef struct {
    uint8_t *map; size_t span;
    uint8_t *ptr; size_t size;
    int live, obj, id, is_map;       /* is_map: obtained by the library with mmap (map/span unused) */
    long nz_before, nz_at_free;
} am_block;

void am_reset(void);            /* forget events, keep blocks (quarantine stays) */
void am_hard_reset(void);
void am_release_all(void);      /* unmap every block (only when no block is referenced any more) */
void am_set_fail_at(long k);    /* fail the k-th monitored request from now (k>=1), -1 never */
void am_set_fail_from(long k);  /* fail the k-th monitored request and every later one */
void am_mark(int obj, int op);  /* attribute following events to (object, op index) */
int am_nevents(void);
const am_event *am_events(void);
long am_requests(void);
void am_enable(int on);
void am_add_decoy(void *p);
void am_set_min_align(unsigned a);   /* 16 (default, the x86-64 ABI) or 8: malloc/calloc blocks then start at 8 or 24 modulo 32, as on ABIs whose allocator only guarantees 8 */
int am_slack_damaged(int obj, long *off); /* bytes between the end of a live block of obj (-1: any) and the guard page no longer hold the fill pattern */
int am_in_arena(const void *p, int *block, long *off);
const am_block *am_blocks(int *n);
int am_live_blocks(void);
long am_nonzero_live(int obj);
void am_protect_obj(int obj, int readonly);   /* PROT_READ / PROT_READ|WRITE on the live blocks of obj */  /* counts non-zero bytes in live blocks of obj (-1 all) and remembers it per block */

#define AM_WRAP_LDFLAGS "-Wl,--wrap=malloc,--wrap=calloc,--wrap=realloc,--wrap=free,--wrap=posix_memalign,--wrap=aligned_alloc,--wrap=memalign,--wrap=mmap,--wrap=mmap64,--wrap=munmap"
#endif
