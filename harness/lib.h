/* Uniform view of the three cipher families of the library under test. */
#ifndef VERIF_LIB_H
#define VERIF_LIB_H
#include <stdint.h>
#include <stddef.h>
#include "skinny128-cipher.h"
#include "skinny128-parallel.h"
#include "skinny64-cipher.h"
#include "skinny64-parallel.h"
#include "mantis-cipher.h"
#include "mantis-parallel.h"

/* superset of every public handle type ({vtable, ctx} / {vtable, ctx, parallel_size}) */
typedef struct { const void *vtable; void *ctx; size_t parallel_size; } vh_handle;

enum { CIPH_S128 = 0, CIPH_S64 = 1, CIPH_MANTIS = 2, CIPH_N = 3 };
enum { BE_GENERIC = 0, BE_VEC128 = 1, BE_VEC256 = 2 };

typedef struct vh_cipher {
    const char *name;
    int id;
    unsigned bb;                        /* block bytes */
    unsigned key_min, key_max, tkey_max;
    int has_tkey;                       /* skinny: tweaked-key API */
    /* CTR API (uniform signatures) */
    int (*ctr_init)(vh_handle *h);
    void (*ctr_cleanup)(vh_handle *h);
    int (*ctr_set_key)(vh_handle *h, const void *k, unsigned n, unsigned rounds);
    int (*ctr_set_tkey)(vh_handle *h, const void *k, unsigned n);
    int (*ctr_set_tweak)(vh_handle *h, const void *t, unsigned n);
    int (*ctr_set_counter)(vh_handle *h, const void *c, unsigned n);
    int (*ctr_encrypt)(void *out, const void *in, size_t n, vh_handle *h);
    /* parallel ECB API */
    int (*par_init)(vh_handle *h);
    void (*par_cleanup)(vh_handle *h);
    int (*par_set_key)(vh_handle *h, const void *k, unsigned n, unsigned rounds, int mode);
    int (*par_encrypt)(void *out, const void *in, const void *tweak, size_t n, const vh_handle *h);
    int (*par_decrypt)(void *out, const void *in, const void *tweak, size_t n, const vh_handle *h);
    void (*par_swap)(vh_handle *h);     /* mantis only */
    /* back end serving a live handle: BE_* or -1 if it cannot be told */
    int (*ctr_backend)(const vh_handle *h);
    int (*par_backend)(const vh_handle *h);
} vh_cipher;

extern const vh_cipher vh_ciphers[CIPH_N];
extern const char *const vh_backend_names[3];

/* hook in the library (RWEATHER_SKINNY_C_VERIF) */
extern int _skinny_verif_backend_cap;
/* number of back ends the running build+CPU offers for a cipher (1..3),
 * measured by initialising an object with cap = 2 */
int vh_max_backend(const vh_cipher *c);
/* set the cap; returns the cap actually usable */
void vh_set_cap(int cap);

#endif
