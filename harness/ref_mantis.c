/* Reference model of MANTIS-r written from the specification
 * (Beierle et al., CRYPTO 2016, section 6).  Cell-array / table based. */
#include "ref.h"
#include <string.h>
#include <stdio.h>

static const uint8_t SB[16] = {0xc,0xa,0xd,0x3,0xe,0xb,0xf,0x7,0x8,0x9,0x1,0x5,0x0,0x2,0x4,0x6};
/* new cell i = old cell H[i] / P[i] */
static const uint8_t H[16] = {6,5,14,15,0,1,2,3,7,12,13,4,8,9,10,11};
static const uint8_t P[16] = {0,11,6,13,10,1,12,7,5,14,3,8,15,4,9,2};
static const uint64_t RC[8] = {
    0x13198a2e03707344ULL, 0xa4093822299f31d0ULL, 0x082efa98ec4e6c89ULL,
    0x452821e638d01377ULL, 0xbe5466cf34e90c6cULL, 0xc0ac29b7c97c50ddULL,
    0x3f84d5b5b5470917ULL, 0x9216d5d98979fb1bULL };
static const uint64_t ALPHA = 0x243f6a8885a308d3ULL;

static void cells_from_u64(uint64_t v, uint8_t *c)
{ int i; for (i = 0; i < 16; ++i) c[i] = (uint8_t)((v >> (60 - 4*i)) & 15); }
static uint64_t u64_from_bytes(const uint8_t *b)
{ uint64_t v = 0; int i; for (i = 0; i < 8; ++i) v = (v << 8) | b[i]; return v; }
static void xor_cells(uint8_t *a, const uint8_t *b) { int i; for (i = 0; i < 16; ++i) a[i] ^= b[i]; }
static void perm(uint8_t *c, const uint8_t *tbl)
{ uint8_t t[16]; int i; for (i = 0; i < 16; ++i) t[i] = c[tbl[i]]; memcpy(c, t, 16); }
static void perm_inv(uint8_t *c, const uint8_t *tbl)
{ uint8_t t[16]; int i; for (i = 0; i < 16; ++i) t[tbl[i]] = c[i]; memcpy(c, t, 16); }
static void sub(uint8_t *c) { int i; for (i = 0; i < 16; ++i) c[i] = SB[c[i]]; }
static void mix(uint8_t *c)
{
    int j;
    for (j = 0; j < 4; ++j) {
        uint8_t a0 = c[j], a1 = c[4+j], a2 = c[8+j], a3 = c[12+j];
        c[j] = a1 ^ a2 ^ a3; c[4+j] = a0 ^ a2 ^ a3; c[8+j] = a0 ^ a1 ^ a3; c[12+j] = a0 ^ a1 ^ a2;
    }
}

static void mantis_core(unsigned r, uint64_t k0, uint64_t k0p, uint64_t k1,
                        uint64_t tweak, const uint8_t *in, uint8_t *out)
{
    uint8_t s[16], t[16], ck0[16], ck0p[16], ck1[16], ck1a[16], rc[16];
    unsigned i; int j;
    cells_from_u64(u64_from_bytes(in), s);
    cells_from_u64(tweak, t);
    cells_from_u64(k0, ck0); cells_from_u64(k0p, ck0p);
    cells_from_u64(k1, ck1); cells_from_u64(k1 ^ ALPHA, ck1a);
    xor_cells(s, ck0); xor_cells(s, ck1); xor_cells(s, t);
    for (i = 1; i <= r; ++i) {
        perm(t, H);
        sub(s);
        cells_from_u64(RC[i-1], rc); xor_cells(s, rc);
        xor_cells(s, ck1); xor_cells(s, t);
        perm(s, P);
        mix(s);
    }
    sub(s); mix(s); sub(s);
    for (i = r; i >= 1; --i) {
        mix(s);
        perm_inv(s, P);
        xor_cells(s, ck1a); xor_cells(s, t);
        cells_from_u64(RC[i-1], rc); xor_cells(s, rc);
        sub(s);
        perm_inv(t, H);
    }
    xor_cells(s, ck0p); xor_cells(s, ck1a); xor_cells(s, t);
    for (j = 0; j < 8; ++j) out[j] = (uint8_t)((s[2*j] << 4) | s[2*j+1]);
}

static uint64_t k0prime(uint64_t k0) { return ((k0 >> 1) | (k0 << 63)) ^ (k0 >> 63); }

void ref_mantis_encrypt(unsigned r, const uint8_t *key, const uint8_t *tweak,
                        const uint8_t *in, uint8_t *out)
{
    uint64_t k0 = u64_from_bytes(key), k1 = u64_from_bytes(key + 8);
    uint64_t t = tweak ? u64_from_bytes(tweak) : 0;
    mantis_core(r, k0, k0prime(k0), k1, t, in, out);
}

void ref_mantis_decrypt(unsigned r, const uint8_t *key, const uint8_t *tweak,
                        const uint8_t *in, uint8_t *out)
{
    uint64_t k0 = u64_from_bytes(key), k1 = u64_from_bytes(key + 8);
    uint64_t t = tweak ? u64_from_bytes(tweak) : 0;
    mantis_core(r, k0prime(k0), k0, k1 ^ ALPHA, t, in, out);
}

