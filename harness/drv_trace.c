/* C08 secondary oracle: instruction/address trace equality.
 * Run under `valgrind --tool=lackey --trace-mem=yes`.  The program reads the
 * secrets with read(2) (not traced, same length), performs a sequence of API
 * calls that depends only on the public scenario number and back-end cap, and
 * brackets it with stores to vh_marker.  The orchestrator requires the trace
 * between the markers to be identical for different secret files.
 * usage: drv_trace <scenario> <cap> <secret-file> */
#include "lib.h"
#include <stdio.h>
#include <stdlib.h>
#include <string.h>
#include <unistd.h>
#include <fcntl.h>

volatile uint32_t vh_marker;
static uint8_t S[8192], O[8192];
static volatile const uint8_t TABLE[256] = {3, 1, 4, 1, 5, 9, 2, 6};
static volatile unsigned sink;

static void scenario_single(unsigned s)
{
    unsigned f = s % 3, q = s / 3;
    if (f == 0) {
        Skinny128TweakedKey_t t; unsigned L = 16 + q % 33;
        skinny128_set_key(&t.ks, S, L); skinny128_ecb_encrypt(O, S + 64, &t.ks); skinny128_ecb_decrypt(O + 16, S + 80, &t.ks);
        skinny128_set_tweaked_key(&t, S, 16 + q % 17); skinny128_set_tweak(&t, S + 128, 1 + q % 16); skinny128_ecb_encrypt(O + 32, S + 64, &t.ks);
    } else if (f == 1) {
        Skinny64TweakedKey_t t; unsigned L = 8 + q % 17;
        skinny64_set_key(&t.ks, S, L); skinny64_ecb_encrypt(O, S + 64, &t.ks); skinny64_ecb_decrypt(O + 16, S + 80, &t.ks);
        skinny64_set_tweaked_key(&t, S, 8 + q % 9); skinny64_set_tweak(&t, S + 128, 1 + q % 8); skinny64_ecb_encrypt(O + 32, S + 64, &t.ks);
    } else {
        MantisKey_t k;
        mantis_set_key(&k, S, 16, 5 + q % 4, (q >> 2) & 1); mantis_set_tweak(&k, S + 32, 8); mantis_ecb_crypt(O, S + 64, &k);
        mantis_ecb_crypt_tweaked(O + 8, S + 72, S + 40, &k); mantis_swap_modes(&k); mantis_ecb_crypt(O + 16, S + 64, &k);
    }
}
static void scenario_ctr(unsigned s)
{
    const vh_cipher *c = &vh_ciphers[s % CIPH_N]; unsigned q = s / CIPH_N; vh_handle h; int tweaked = c->has_tkey && (q & 1);
    unsigned klen = c->id == CIPH_MANTIS ? 16 : c->bb + (q >> 1) % ((tweaked ? 1 : 2) * c->bb + 1), total = (q * 37) % 300, a = total / 3;
    memset(&h, 0, sizeof(h));
    c->ctr_init(&h);
    if (tweaked) c->ctr_set_tkey(&h, S, klen); else c->ctr_set_key(&h, S, klen, 5 + q % 4);
    if (tweaked || c->id == CIPH_MANTIS) c->ctr_set_tweak(&h, S + 64, c->id == CIPH_MANTIS ? 8 : 1 + q % c->bb);
    c->ctr_set_counter(&h, S + 96, q % (c->bb + 1));
    c->ctr_encrypt(O, S + 128, a, &h);
    if (q & 4) { if (tweaked) c->ctr_set_tkey(&h, S + 16, klen); else c->ctr_set_key(&h, S + 16, klen, 6); }
    c->ctr_encrypt(O + a, S + 128 + a, total - a, &h);
    c->ctr_cleanup(&h);
}
static void scenario_par(unsigned s)
{
    const vh_cipher *c = &vh_ciphers[s % CIPH_N]; unsigned q = s / CIPH_N, nb = q % 21; vh_handle h;
    memset(&h, 0, sizeof(h));
    c->par_init(&h);
    c->par_set_key(&h, S, c->id == CIPH_MANTIS ? 16 : c->bb + q % (2 * c->bb + 1), 5 + q % 4, q & 1);
    c->par_encrypt(O, S + 128, S + 2048, nb * c->bb, &h);
    if (c->par_decrypt) c->par_decrypt(O + 1024, S + 128, NULL, nb * c->bb, &h); else { c->par_swap(&h); c->par_encrypt(O + 1024, S + 128, S + 2048, nb * c->bb, &h); }
    c->par_cleanup(&h);
}

int main(int argc, char **argv)
{
    unsigned scen; int fd;
    if (argc != 4) return 2;
    scen = (unsigned)strtoul(argv[1], NULL, 10);
    _skinny_verif_backend_cap = atoi(argv[2]);
    fd = open(argv[3], O_RDONLY);
    if (fd < 0 || read(fd, S, sizeof(S)) != (ssize_t)sizeof(S)) return 2;
    close(fd);
    printf("marker=%lx\n", (unsigned long)&vh_marker); fflush(stdout);
    vh_marker = 0xA1;
    if (scen == 999999) { sink = TABLE[S[0]]; if (S[1] & 1) sink = 7; }          /* positive control: leaks */
    else switch (scen % 3) {
        case 0: scenario_single(scen / 3); break;
        case 1: scenario_ctr(scen / 3); break;
        default: scenario_par(scen / 3); break;
    }
    vh_marker = 0xA2;
    return 0;
}
