/* Driver for key-length and argument-validation properties at every
 * key-setting entry point.
 *   --mode c10 : exhaustive key-length sweep (0..3 blocks+16 and huge) through
 *                set_key / set_tweaked_key (single-block, CTR, parallel) and the
 *                Mantis entry points (sizes 0..40 x rounds)
 *   --mode c14 : invalid calls on the plain key-schedule functions return 0 and
 *                leave the schedule as it was
 */
#include "hist.h"
#include <string.h>
#include <stdlib.h>

static const char *prop = "C10";
static int maxbe[CIPH_N];

static void viol(const char *key, uint64_t idx, const char *detail)
{
    vh_sb rp; sb_init(&rp);
    sb_printf(&rp, "{\"driver\":\"drv_keys\",\"prop\":\"%s\",\"mode\":\"%s\",\"seed\":%llu,\"case\":%llu,\"variant\":\"%s\",\"case_detail\":%s}",
              prop, vh_arg_mode, (unsigned long long)vh_seed, (unsigned long long)idx, vh_variant, detail);
    vh_violation(key, detail, rp.p);
    sb_free(&rp);
}
static void begin(uint64_t idx, const char *pfx)
{
    char d[256];
    snprintf(d, sizeof(d), "{\"driver\":\"drv_keys\",\"prop\":\"%s\",\"mode\":\"%s\",\"seed\":%llu,\"case\":%llu,\"variant\":\"%s\"}", prop, vh_arg_mode,
             (unsigned long long)vh_seed, (unsigned long long)idx, vh_variant);
    vh_case_begin(idx, pfx, d);
}

/* ------------------------------------------------------------------ C10 */
enum { E_SET_KEY, E_SET_TKEY, E_CTR_SET_KEY, E_CTR_SET_TKEY, E_PAR_SET_KEY, E_N };
static const char *const ename[E_N] = {"set_key", "set_tweaked_key", "ctr_set_key", "ctr_set_tweaked_key", "parallel_ecb_set_key"};
static const uint32_t HUGE_LENS[] = {0x10000u, 0x80000000u, 0xFFFFFFFEu, 0xFFFFFFFFu, 0x7FFFFFFFu, 256, 1000};
#define NHUGE 7

/* Observation of a keyed object: a few outputs that depend on the whole schedule */
typedef struct { uint8_t b[6][16]; } probe_t;

static void probe_plain128(const Skinny128Key_t *ks, const uint8_t *blocks, probe_t *p)
{ int i; for (i = 0; i < 3; ++i) { skinny128_ecb_encrypt(p->b[i], blocks + 16 * i, ks); skinny128_ecb_decrypt(p->b[3 + i], blocks + 16 * i, ks); } }
static void probe_plain64(const Skinny64Key_t *ks, const uint8_t *blocks, probe_t *p)
{ int i; memset(p, 0, sizeof(*p)); for (i = 0; i < 3; ++i) { skinny64_ecb_encrypt(p->b[i], blocks + 8 * i, ks); skinny64_ecb_decrypt(p->b[3 + i], blocks + 8 * i, ks); } }

static void model_probe(unsigned bb, int tweaked, const uint8_t *key, unsigned klen, const uint8_t *blocks, probe_t *p)
{
    int i; memset(p, 0, sizeof(*p));
    for (i = 0; i < 3; ++i) {
        if (tweaked) { ref_skinny_tweaked_crypt(bb, key, klen, NULL, 0, 0, blocks + bb * i, p->b[i]); ref_skinny_tweaked_crypt(bb, key, klen, NULL, 0, 1, blocks + bb * i, p->b[3 + i]); }
        else { ref_skinny_key_crypt(bb, key, klen, 0, blocks + bb * i, p->b[i]); ref_skinny_key_crypt(bb, key, klen, 1, blocks + bb * i, p->b[3 + i]); }
    }
}

/* outputs of a CTR object after counter reset: 3 blocks of keystream xor zero */
static void ctr_probe(const vh_cipher *c, vh_handle *h, const uint8_t *ctr, probe_t *p)
{
    uint8_t z[48]; memset(z, 0, sizeof(z)); memset(p, 0, sizeof(*p));
    c->ctr_set_counter(h, ctr, c->bb);
    c->ctr_encrypt(p->b[0], z, 3 * c->bb > 48 ? 48 : 3 * c->bb, h);
}
static void ctr_model_probe(const vh_cipher *c, int tweaked, const uint8_t *key, unsigned klen, const uint8_t *ctr, probe_t *p)
{
    unsigned i; uint8_t cb[16]; uint8_t *o = p->b[0];
    memset(p, 0, sizeof(*p));
    for (i = 0; i < 3; ++i) {
        memcpy(cb, ctr, c->bb); ref_ctr_add(cb, c->bb, i);
        if (tweaked) ref_skinny_tweaked_crypt(c->bb, key, klen, NULL, 0, 0, cb, o + i * c->bb);
        else ref_skinny_key_crypt(c->bb, key, klen, 0, cb, o + i * c->bb);
    }
}

static void c10_skinny(uint64_t idx, vh_rng *r)
{
    /* idx -> (block size, entry point, length) exhaustively, then repeated with fresh random bytes */
    unsigned bbsel = (unsigned)(idx % 2), e = (unsigned)((idx / 2) % E_N);
    unsigned bb = bbsel ? 16 : 8, span = 3 * bb + 17 + NHUGE;
    uint64_t q = idx / (2 * E_N);
    unsigned li = (unsigned)(q % span);
    uint32_t L = li < 3 * bb + 17 ? li : HUGE_LENS[li - (3 * bb + 17)];
    if (li >= 3 * bb + 17 && (q / span) % 2 == 1) L = vh_wrap_len(r, bb, 3 * bb);    /* wraps into the legal range when scaled by 2..32 */
    const vh_cipher *c = &vh_ciphers[bbsel ? CIPH_S128 : CIPH_S64];
    int tweaked = (e == E_SET_TKEY || e == E_CTR_SET_TKEY);
    unsigned maxk = tweaked ? 2 * bb : 3 * bb;
    int should_accept = (L >= bb && L <= maxk);
    uint8_t keybytes[96], padded[48], old[48], blocks[48], ctrv[16];
    unsigned avail = should_accept ? L : (L > 64 ? 1 + vh_below(r, 64) : L), padlen, be, nbe;
    uint8_t *kp; int ret = -1; char k_[200];
    probe_t before, after, mod, padp;
    vh_rand_bytes(r, keybytes, sizeof(keybytes)); vh_rand_bytes(r, old, sizeof(old)); vh_rand_bytes(r, blocks, sizeof(blocks)); vh_rand_bytes(r, ctrv, 16);
    if (!vh_below(r, 4)) memset(keybytes, 0xFF, sizeof(keybytes));
    padlen = ((L + bb - 1) / bb) * bb; if (padlen > 48) padlen = 48;
    memset(padded, 0, sizeof(padded)); if (should_accept) memcpy(padded, keybytes, L);
    if (should_accept && vh_below(r, 2)) {   /* the key the object holds beforehand is the key under test zero-extended to the largest size: same zero-padded bytes, another variant */
        memset(old, 0, sizeof(old)); memcpy(old, keybytes, L > 48 ? 48 : L); VH_COUNT("previous_key_is_zero_extension_of_key_under_test", 1);
    }
    snprintf(k_, sizeof(k_), "C10:skinny%u:%s", bb * 8, ename[e]);
    vh_set_crash_key(k_);
    if (vh_distinct(vh_hash(keybytes, avail, VH_HASH_INIT + idx % (2 * E_N) + 16 * (uint64_t)L))) VH_COUNT("distinct_nontrivial_cases", 1);
    VH_COUNT(should_accept ? "legal_lengths_tried" : "illegal_lengths_tried", 1);
    if (should_accept && L % bb) VH_COUNT("in_between_lengths_tried", 1);
    nbe = (e >= E_CTR_SET_KEY) ? (unsigned)maxbe[c->id] + 1 : 1;
    for (be = 0; be < nbe; ++be) {
        const char *bad = NULL;
        vh_set_cap((int)be);
        kp = vh_gback(0, avail, -1);       /* exactly the bytes the call may read; non-key bytes follow in keybytes but are not mapped */
        memcpy(kp, keybytes, avail);
        vh_paint_stack(vh_below(r, 2) ? 0xFF : -1, 16384);
        if (e == E_SET_KEY || e == E_SET_TKEY) {
            if (bb == 16) {
                Skinny128TweakedKey_t tk; Skinny128Key_t pk, save;
                /* pre-existing known good schedule */
                Skinny128TweakedKey_t twin; uint8_t savetw[16];
                if (tweaked) { skinny128_set_tweaked_key(&tk, old, 32); skinny128_set_tweak(&tk, old + 32, 16); twin = tk; memcpy(savetw, tk.tweak, 16); } else skinny128_set_key(&pk, old, 48);
                save = tweaked ? tk.ks : pk;
                probe_plain128(tweaked ? &tk.ks : &pk, blocks, &before);
                vh_call_begin(ename[e]);
                ret = tweaked ? skinny128_set_tweaked_key(&tk, kp, L) : skinny128_set_key(&pk, kp, L);
                vh_call_end();
                probe_plain128(tweaked ? &tk.ks : &pk, blocks, &after);
                if (!should_accept && !ret) {
                    const Skinny128Key_t *now = tweaked ? &tk.ks : &pk;
                    if (now->rounds != save.rounds || memcmp(now->schedule, save.schedule, save.rounds * sizeof(save.schedule[0]))) bad = "rejected-call-modified-schedule";
                    else if (tweaked && memcmp(tk.tweak, savetw, 16)) bad = "rejected-call-modified-stored-tweak";
                    else if (tweaked) {   /* a later tweak change must behave as if the rejected call never happened */
                        probe_t p1, p2;
                        skinny128_set_tweak(&tk, keybytes + 64, 16); skinny128_set_tweak(&twin, keybytes + 64, 16);
                        probe_plain128(&tk.ks, blocks, &p1); probe_plain128(&twin.ks, blocks, &p2);
                        if (memcmp(&p1, &p2, sizeof(p1))) bad = "rejected-call-changed-later-results";
                    }
                }
                if (should_accept && ret) {
                    Skinny128TweakedKey_t tk2; Skinny128Key_t pk2;
                    if (tweaked) skinny128_set_tweaked_key(&tk2, padded, padlen); else skinny128_set_key(&pk2, padded, padlen);
                    probe_plain128(tweaked ? &tk2.ks : &pk2, blocks, &padp);
                }
            } else {
                Skinny64TweakedKey_t tk; Skinny64Key_t pk, save;
                Skinny64TweakedKey_t twin; uint8_t savetw[8];
                if (tweaked) { skinny64_set_tweaked_key(&tk, old, 16); skinny64_set_tweak(&tk, old + 32, 8); twin = tk; memcpy(savetw, tk.tweak, 8); } else skinny64_set_key(&pk, old, 24);
                save = tweaked ? tk.ks : pk;
                probe_plain64(tweaked ? &tk.ks : &pk, blocks, &before);
                vh_call_begin(ename[e]);
                ret = tweaked ? skinny64_set_tweaked_key(&tk, kp, L) : skinny64_set_key(&pk, kp, L);
                vh_call_end();
                probe_plain64(tweaked ? &tk.ks : &pk, blocks, &after);
                if (!should_accept && !ret) {
                    const Skinny64Key_t *now = tweaked ? &tk.ks : &pk;
                    if (now->rounds != save.rounds || memcmp(now->schedule, save.schedule, save.rounds * sizeof(save.schedule[0]))) bad = "rejected-call-modified-schedule";
                    else if (tweaked && memcmp(tk.tweak, savetw, 8)) bad = "rejected-call-modified-stored-tweak";
                    else if (tweaked) {
                        probe_t p1, p2;
                        skinny64_set_tweak(&tk, keybytes + 64, 8); skinny64_set_tweak(&twin, keybytes + 64, 8);
                        probe_plain64(&tk.ks, blocks, &p1); probe_plain64(&twin.ks, blocks, &p2);
                        if (memcmp(&p1, &p2, sizeof(p1))) bad = "rejected-call-changed-later-results";
                    }
                }
                if (should_accept && ret) {
                    Skinny64TweakedKey_t tk2; Skinny64Key_t pk2;
                    if (tweaked) skinny64_set_tweaked_key(&tk2, padded, padlen); else skinny64_set_key(&pk2, padded, padlen);
                    probe_plain64(tweaked ? &tk2.ks : &pk2, blocks, &padp);
                }
            }
            if (should_accept) model_probe(bb, tweaked, keybytes, L, blocks, &mod);
        } else if (e == E_CTR_SET_KEY || e == E_CTR_SET_TKEY) {
            vh_handle h, h2; memset(&h, 0, sizeof(h)); memset(&h2, 0, sizeof(h2));
            c->ctr_init(&h);
            if (c->ctr_backend(&h) != (int)be) { c->ctr_cleanup(&h); bad = "backend-not-pinned"; goto judged; }
            if (tweaked) { c->ctr_set_tkey(&h, old, 2 * bb); c->ctr_set_tweak(&h, old + 32, bb); } else c->ctr_set_key(&h, old, 3 * bb, 0);
            ctr_probe(c, &h, ctrv, &before);
            vh_call_begin(ename[e]);
            ret = tweaked ? c->ctr_set_tkey(&h, kp, L) : c->ctr_set_key(&h, kp, L, 0);
            vh_call_end();
            ctr_probe(c, &h, ctrv, &after);
            if (!should_accept && !ret && tweaked) {   /* a later tweak change must behave as on a twin object that never saw the rejected call */
                probe_t p1, p2;
                c->ctr_init(&h2); c->ctr_set_tkey(&h2, old, 2 * bb); c->ctr_set_tweak(&h2, old + 32, bb);
                c->ctr_set_tweak(&h, keybytes + 64, bb); c->ctr_set_tweak(&h2, keybytes + 64, bb);
                ctr_probe(c, &h, ctrv, &p1); ctr_probe(c, &h2, ctrv, &p2);
                c->ctr_cleanup(&h2);
                if (memcmp(&p1, &p2, sizeof(p1))) bad = "rejected-call-changed-later-results";
            }
            if (!should_accept && !ret && !bad) {   /* "untouched" includes the stream position: a rejected call in the middle of a block / batch must not disturb the stream */
                vh_handle h3, h4; uint8_t s3[200], s4[200], zz[200]; unsigned pre = 1 + vh_below(r, 8 * bb - 1), more = 5 * bb + 3;
                memset(&h3, 0, sizeof(h3)); memset(&h4, 0, sizeof(h4)); memset(zz, 0, sizeof(zz));
                c->ctr_init(&h3); c->ctr_init(&h4);
                if (tweaked) { c->ctr_set_tkey(&h3, old, 2 * bb); c->ctr_set_tkey(&h4, old, 2 * bb); c->ctr_set_tweak(&h3, old + 32, bb); c->ctr_set_tweak(&h4, old + 32, bb); }
                else { c->ctr_set_key(&h3, old, 3 * bb, 0); c->ctr_set_key(&h4, old, 3 * bb, 0); }
                c->ctr_set_counter(&h3, ctrv, bb); c->ctr_set_counter(&h4, ctrv, bb);
                c->ctr_encrypt(s3, zz, pre, &h3); c->ctr_encrypt(s4, zz, pre, &h4);
                vh_call_begin(ename[e]);
                if (tweaked) c->ctr_set_tkey(&h3, kp, L); else c->ctr_set_key(&h3, kp, L, 0);
                vh_call_end();
                c->ctr_encrypt(s3, zz, more, &h3); c->ctr_encrypt(s4, zz, more, &h4);
                c->ctr_cleanup(&h3); c->ctr_cleanup(&h4);
                VH_COUNT("rejected_calls_checked_in_mid_stream", 1);
                if (memcmp(s3, s4, more)) bad = "rejected-call-disturbed-the-stream";
            }
            if (should_accept && ret && !bad) {   /* the same in mid-stream: re-keying with L bytes or with the zero-padded key must leave the two objects in the same state, stream position included */
                vh_handle h3, h4; uint8_t s3[200], s4[200], zz[200]; unsigned pre = 1 + vh_below(r, 8 * bb - 1), more = 5 * bb + 3;
                memset(&h3, 0, sizeof(h3)); memset(&h4, 0, sizeof(h4)); memset(zz, 0, sizeof(zz));
                c->ctr_init(&h3); c->ctr_init(&h4);
                if (tweaked) { c->ctr_set_tkey(&h3, old, 2 * bb); c->ctr_set_tkey(&h4, old, 2 * bb); } else { c->ctr_set_key(&h3, old, 3 * bb, 0); c->ctr_set_key(&h4, old, 3 * bb, 0); }
                c->ctr_set_counter(&h3, ctrv, bb); c->ctr_set_counter(&h4, ctrv, bb);
                c->ctr_encrypt(s3, zz, pre, &h3); c->ctr_encrypt(s4, zz, pre, &h4);
                vh_call_begin(ename[e]);
                if (tweaked) { c->ctr_set_tkey(&h3, kp, L); c->ctr_set_tkey(&h4, padded, padlen); } else { c->ctr_set_key(&h3, kp, L, 0); c->ctr_set_key(&h4, padded, padlen, 0); }
                vh_call_end();
                c->ctr_encrypt(s3, zz, more, &h3); c->ctr_encrypt(s4, zz, more, &h4);
                c->ctr_cleanup(&h3); c->ctr_cleanup(&h4);
                VH_COUNT("accepted_key_lengths_checked_in_mid_stream", 1);
                if (memcmp(s3, s4, more)) bad = "mid-stream-rekey-differs-from-zero-padded-key";
            }
            if (should_accept && ret) {
                c->ctr_init(&h2);
                if (tweaked) c->ctr_set_tkey(&h2, padded, padlen); else c->ctr_set_key(&h2, padded, padlen, 0);
                ctr_probe(c, &h2, ctrv, &padp);
                c->ctr_cleanup(&h2);
                ctr_model_probe(c, tweaked, keybytes, L, ctrv, &mod);
            }
            c->ctr_cleanup(&h);
        } else {
            vh_handle h, h2; uint8_t o1[48]; memset(&h, 0, sizeof(h)); memset(&h2, 0, sizeof(h2));
            c->par_init(&h);
            if (c->par_backend(&h) != (int)be) { c->par_cleanup(&h); bad = "backend-not-pinned"; goto judged; }
            c->par_set_key(&h, old, 3 * bb, 0, 0);
            memset(&before, 0, sizeof(before)); memset(&after, 0, sizeof(after)); memset(&padp, 0, sizeof(padp)); memset(&mod, 0, sizeof(mod));
            c->par_encrypt(o1, blocks, NULL, 3 * bb, &h); memcpy(before.b[0], o1, 3 * bb);
            vh_call_begin(ename[e]);
            ret = c->par_set_key(&h, kp, L, 0, 0);
            vh_call_end();
            c->par_encrypt(o1, blocks, NULL, 3 * bb, &h); memcpy(after.b[0], o1, 3 * bb);
            if (should_accept && ret) {
                unsigned i;
                c->par_init(&h2); c->par_set_key(&h2, padded, padlen, 0, 0);
                c->par_encrypt(o1, blocks, NULL, 3 * bb, &h2); memcpy(padp.b[0], o1, 3 * bb);
                c->par_cleanup(&h2);
                for (i = 0; i < 3; ++i) ref_skinny_key_crypt(bb, keybytes, L, 0, blocks + bb * i, mod.b[0] + bb * i);
            }
            c->par_cleanup(&h);
        }
        if (!bad) {
            if (should_accept && ret != 1) bad = "legal-length-rejected";
            else if (!should_accept && ret != 0) bad = "illegal-length-accepted";
            else if (!should_accept && memcmp(&before, &after, sizeof(before))) bad = "rejected-call-changed-later-results";
            else if (should_accept && memcmp(&after, &padp, sizeof(after))) bad = "differs-from-zero-padded-key";
            else if (should_accept && memcmp(&after, &mod, sizeof(after))) bad = "differs-from-reference-model";
        }
        { long wh; if (!bad && vh_gcheck(0, &wh)) bad = "canary-damaged"; }
    judged:
        VH_COUNT("entry_point_calls_checked", 1);
        if (bad || (vh_want_sample() && be == 0)) {
            vh_sb d; sb_init(&d);
            sb_printf(&d, "{\"cipher\":\"skinny%u\",\"entry\":\"%s\",\"backend\":\"%s\",\"length\":%u,\"legal\":%s,\"ret\":%d,\"key_prefix\":", bb * 8, ename[e], vh_backend_names[be], L, should_accept ? "true" : "false", ret);
            sb_hexn(&d, keybytes, avail, 48); sb_printf(&d, "}");
            if (bad) {
                char key[256];
                const char *lc = should_accept ? (L % bb ? "in-between-length" : "primary-length") : (L < bb ? "too-short" : "too-long");
                snprintf(key, sizeof(key), "C10:skinny%u:%s:%s:%s:%s", bb * 8, ename[e], e >= E_CTR_SET_KEY ? vh_backend_names[be] : "-", lc, bad);
                viol(key, idx, d.p);
            } else vh_sample(d.p);
            sb_free(&d);
        }
    }
}

static void c10_mantis(uint64_t idx, vh_rng *r)
{
    /* sizes 0..40 and huge x rounds 0..20 and huge x 3 entry points */
    unsigned e = (unsigned)(idx % 3);
    uint64_t q = idx / 3;
    /* the (size, rounds) grid is walked in a scrambled order (multiplier coprime to the grid size) so that short runs see all kinds */
    enum { NHR = 8, GRID = (41 + NHUGE) * (21 + NHR) };
    uint64_t qq = (q % GRID) * 577u % GRID;
    unsigned si = (unsigned)(qq % (41 + NHUGE)), ri = (unsigned)(qq / (41 + NHUGE));
    static const uint32_t HR[NHR] = {0xFFFFFFFFu, 0x80000005u, 0x10006u, 255, 261, 264, 0x20007u, 517};      /* incl. values whose low 8 / 16 bits are a legal round count */
    uint32_t L = si < 41 ? si : HUGE_LENS[si - 41], R = ri < 21 ? ri : HR[ri - 21];
    if (si >= 41 && (q / GRID) % 2 == 1) L = vh_wrap_len(r, 16, 16);
    if (ri >= 21 && (q / GRID) % 3 == 1) R = vh_wrap_len(r, 5, 8);
    int legal = (L == 16 && R >= 5 && R <= 8), ret = -1, mode = (int)vh_below(r, 2);
    uint8_t keybytes[64], old[16], in[24], tw[24], o1[24], o2[24], o3[24], exp_[24];
    unsigned avail = legal ? 16 : (L > 40 ? 1 + vh_below(r, 40) : L), be, nbe;
    static const char *const en[3] = {"mantis_set_key", "mantis_ctr_set_key", "mantis_parallel_ecb_set_key"};
    const vh_cipher *c = &vh_ciphers[CIPH_MANTIS];
    char k_[160];
    vh_rand_bytes(r, keybytes, sizeof(keybytes)); vh_rand_bytes(r, old, 16); vh_rand_bytes(r, in, 24); vh_rand_bytes(r, tw, 24);
    snprintf(k_, sizeof(k_), "C10:mantis:%s", en[e]); vh_set_crash_key(k_);
    if (vh_distinct(vh_hash(keybytes, avail, VH_HASH_INIT + e + 8 * (uint64_t)L + ((uint64_t)R << 40)))) VH_COUNT("distinct_nontrivial_cases", 1);
    VH_COUNT(legal ? "legal_lengths_tried" : "illegal_lengths_tried", 1);
    nbe = e ? (unsigned)maxbe[CIPH_MANTIS] + 1 : 1;
    for (be = 0; be < nbe; ++be) {
        const char *bad = NULL;
        uint8_t *kp;
        vh_set_cap((int)be);
        kp = vh_gback(0, avail, -1); memcpy(kp, keybytes, avail);
        vh_paint_stack(vh_below(r, 2) ? 0xFF : -1, 16384);
        memset(o1, 0, 24); memset(o2, 0, 24); memset(o3, 0, 24); memset(exp_, 0, 24);
        if (e == 0) {
            MantisKey_t ks, save;
            mantis_set_key(&ks, old, 16, 7, MANTIS_ENCRYPT); mantis_set_tweak(&ks, tw, 8); save = ks;
            mantis_ecb_crypt(o1, in, &ks);
            vh_call_begin(en[e]); ret = mantis_set_key(&ks, kp, L, R, mode ? MANTIS_ENCRYPT : MANTIS_DECRYPT); vh_call_end();
            mantis_ecb_crypt(o2, in, &ks);
            if (!legal && !ret && (ks.k0.llrow != save.k0.llrow || ks.k0prime.llrow != save.k0prime.llrow || ks.k1.llrow != save.k1.llrow || ks.tweak.llrow != save.tweak.llrow || ks.rounds != save.rounds)) bad = "rejected-call-modified-schedule";
            if (legal) { if (mode) ref_mantis_encrypt(R, keybytes, NULL, in, exp_); else ref_mantis_decrypt(R, keybytes, NULL, in, exp_); }
        } else if (e == 1) {
            vh_handle h; uint8_t z[24], cb[8]; unsigned i; memset(&h, 0, sizeof(h)); memset(z, 0, 24);
            c->ctr_init(&h);
            if (c->ctr_backend(&h) != (int)be) { c->ctr_cleanup(&h); bad = "backend-not-pinned"; goto judged; }
            c->ctr_set_key(&h, old, 16, 7); c->ctr_set_tweak(&h, tw, 8);
            c->ctr_set_counter(&h, in, 8); c->ctr_encrypt(o1, z, 24, &h);
            vh_call_begin(en[e]); ret = c->ctr_set_key(&h, kp, L, R); vh_call_end();
            c->ctr_set_counter(&h, in, 8); c->ctr_encrypt(o2, z, 24, &h);
            if (legal) for (i = 0; i < 3; ++i) { memcpy(cb, in, 8); ref_ctr_add(cb, 8, i); ref_mantis_encrypt(R, keybytes, NULL, cb, exp_ + 8 * i); }
            c->ctr_cleanup(&h);
            if (!legal && !ret) {   /* a rejected call in the middle of a block / batch must not disturb the stream */
                vh_handle h3, h4; uint8_t s3[80], s4[80], zz[80]; unsigned pre = 1 + vh_below(r, 63), more = 43;
                memset(&h3, 0, sizeof(h3)); memset(&h4, 0, sizeof(h4)); memset(zz, 0, sizeof(zz));
                c->ctr_init(&h3); c->ctr_init(&h4);
                c->ctr_set_key(&h3, old, 16, 7); c->ctr_set_key(&h4, old, 16, 7); c->ctr_set_tweak(&h3, tw, 8); c->ctr_set_tweak(&h4, tw, 8);
                c->ctr_set_counter(&h3, in, 8); c->ctr_set_counter(&h4, in, 8);
                c->ctr_encrypt(s3, zz, pre, &h3); c->ctr_encrypt(s4, zz, pre, &h4);
                vh_call_begin(en[e]); c->ctr_set_key(&h3, kp, L, R); vh_call_end();
                c->ctr_encrypt(s3, zz, more, &h3); c->ctr_encrypt(s4, zz, more, &h4);
                c->ctr_cleanup(&h3); c->ctr_cleanup(&h4);
                VH_COUNT("rejected_calls_checked_in_mid_stream", 1);
                if (memcmp(s3, s4, more)) bad = "rejected-call-disturbed-the-stream";
            }
        } else {
            vh_handle h; unsigned i; memset(&h, 0, sizeof(h));
            c->par_init(&h);
            if (c->par_backend(&h) != (int)be) { c->par_cleanup(&h); bad = "backend-not-pinned"; goto judged; }
            c->par_set_key(&h, old, 16, 7, MANTIS_ENCRYPT);
            c->par_encrypt(o1, in, tw, 24, &h);
            vh_call_begin(en[e]); ret = c->par_set_key(&h, kp, L, R, mode ? MANTIS_ENCRYPT : MANTIS_DECRYPT); vh_call_end();
            c->par_encrypt(o2, in, tw, 24, &h);
            if (legal) for (i = 0; i < 3; ++i) { if (mode) ref_mantis_encrypt(R, keybytes, tw + 8 * i, in + 8 * i, exp_ + 8 * i); else ref_mantis_decrypt(R, keybytes, tw + 8 * i, in + 8 * i, exp_ + 8 * i); }
            c->par_cleanup(&h);
        }
        if (!bad) {
            unsigned cmp = e == 0 ? 8 : 24;
            if (legal && ret != 1) bad = "legal-key-rejected";
            else if (!legal && ret != 0) bad = "illegal-size-or-rounds-accepted";
            else if (!legal && memcmp(o1, o2, cmp)) bad = "rejected-call-changed-later-results";
            else if (legal && memcmp(o2, exp_, cmp)) bad = "differs-from-reference-model";
        }
        { long wh; if (!bad && vh_gcheck(0, &wh)) bad = "canary-damaged"; }
    judged:
        VH_COUNT("entry_point_calls_checked", 1);
        if (bad) {
            vh_sb d; char key[256]; sb_init(&d);
            sb_printf(&d, "{\"entry\":\"%s\",\"backend\":\"%s\",\"size\":%u,\"rounds\":%u,\"legal\":%s,\"ret\":%d}", en[e], vh_backend_names[be], L, R, legal ? "true" : "false", ret);
            snprintf(key, sizeof(key), "C10:mantis:%s:%s:%s:%s", en[e], e ? vh_backend_names[be] : "-", L != 16 ? "bad-size" : (legal ? "legal" : "bad-rounds"), bad);
            viol(key, idx, d.p); sb_free(&d);
        }
    }
}

static void c10_case(uint64_t idx)
{
    vh_rng r;
    vh_rng_seed(&r, vh_seed, 0x10, idx);
    begin(idx, "C10");
    if (idx % 4 == 3) c10_mantis(idx / 4, &r); else c10_skinny((idx / 4) * 3 + idx % 4, &r);
}

/* ------------------------------------------------------------------ C14 (plain key-schedule functions) */
static void c14_case(uint64_t idx)
{
    vh_rng r; unsigned fam = (unsigned)(idx % 3), fn, cls; int ret = -99; const char *fname = "?", *cname = "?";
    uint8_t good[48], bad[80], blocks[16], o1[32], o2[32], tweak[16];
    static const uint32_t big[] = {0xFFFFFFFFu, 0x80000000u, 0x10000u, 257, 0x7FFFFFFFu};
    uint32_t L = 0, R = 7; const void *kp = NULL; int null_obj = 0; char k_[200];
    uint8_t *gb;
    vh_rng_seed(&r, vh_seed, 0x14, idx);
    begin(idx, "C14:keyschedule");
    vh_rand_bytes(&r, good, 48); vh_rand_bytes(&r, bad, 80); vh_rand_bytes(&r, blocks, 16); vh_rand_bytes(&r, tweak, 16);
    memset(o1, 0, 32); memset(o2, 0, 32);
    if (fam < 2) {
        unsigned bb = fam ? 16 : 8, avail;
        fn = vh_below(&r, 3); cls = vh_below(&r, 6);
        fname = fn == 0 ? "set_key" : (fn == 1 ? "set_tweaked_key" : "set_tweak");
        switch (cls) {
        case 0: null_obj = 1; L = bb; cname = "null-object"; break;
        case 1: if (fn == 2) { L = 0; cname = "tweak-len-0"; } else { L = bb; cname = "null-key"; } break;
        case 2: L = fn == 2 ? 0 : bb - 1 - vh_below(&r, 3); cname = fn == 2 ? "tweak-len-0" : "key-too-short"; break;
        case 3: L = (fn == 0 ? 3 * bb : fn == 1 ? 2 * bb : bb) + 1 + vh_below(&r, 3); cname = fn == 2 ? "tweak-too-long" : "key-too-long"; break;
        case 4: L = vh_below(&r, 2) ? big[vh_below(&r, 5)] : vh_wrap_len(&r, fn == 2 ? 1 : bb, fn == 2 ? bb : 2 * bb); cname = fn == 2 ? "tweak-len-huge" : "key-len-huge"; break;
        default: L = 0; cname = fn == 2 ? "tweak-len-0" : "key-len-0"; break;
        }
        avail = L > 64 ? 1 + vh_below(&r, 64) : L;
        gb = vh_gback(0, avail, -1); memcpy(gb, bad, avail);
        kp = (cls == 1 && fn != 2) ? NULL : gb;
        if (fn == 2 && !vh_below(&r, 3)) kp = NULL;
        snprintf(k_, sizeof(k_), "C14:skinny%u:%s:%s", bb * 8, fname, cname); vh_set_crash_key(k_);
        if (bb == 16) {
            Skinny128TweakedKey_t tk, save; Skinny128Key_t pk, psave;
            skinny128_set_tweaked_key(&tk, good, 16 + 16 * vh_below(&r, 2)); skinny128_set_tweak(&tk, tweak, 16); save = tk;
            skinny128_set_key(&pk, good, 16 * (1 + vh_below(&r, 3))); psave = pk;
            skinny128_ecb_encrypt(o1, blocks, &tk.ks); skinny128_ecb_encrypt(o1 + 16, blocks, &pk);
            vh_call_begin(fname);
            if (fn == 0) ret = skinny128_set_key(null_obj ? NULL : &pk, kp, L);
            else if (fn == 1) ret = skinny128_set_tweaked_key(null_obj ? NULL : &tk, kp, L);
            else ret = skinny128_set_tweak(null_obj ? NULL : &tk, kp, L);
            vh_call_end();
            skinny128_ecb_encrypt(o2, blocks, &tk.ks); skinny128_ecb_encrypt(o2 + 16, blocks, &pk);
            if (!ret && (memcmp(&tk.ks.schedule, &save.ks.schedule, save.ks.rounds * 8) || tk.ks.rounds != save.ks.rounds || memcmp(tk.tweak, save.tweak, 16) ||
                         pk.rounds != psave.rounds || memcmp(pk.schedule, psave.schedule, psave.rounds * 8))) memset(o2, 0x77, 32);
        } else {
            Skinny64TweakedKey_t tk, save; Skinny64Key_t pk, psave;
            skinny64_set_tweaked_key(&tk, good, 8 + 8 * vh_below(&r, 2)); skinny64_set_tweak(&tk, tweak, 8); save = tk;
            skinny64_set_key(&pk, good, 8 * (1 + vh_below(&r, 3))); psave = pk;
            skinny64_ecb_encrypt(o1, blocks, &tk.ks); skinny64_ecb_encrypt(o1 + 16, blocks, &pk);
            vh_call_begin(fname);
            if (fn == 0) ret = skinny64_set_key(null_obj ? NULL : &pk, kp, L);
            else if (fn == 1) ret = skinny64_set_tweaked_key(null_obj ? NULL : &tk, kp, L);
            else ret = skinny64_set_tweak(null_obj ? NULL : &tk, kp, L);
            vh_call_end();
            skinny64_ecb_encrypt(o2, blocks, &tk.ks); skinny64_ecb_encrypt(o2 + 16, blocks, &pk);
            if (!ret && (memcmp(&tk.ks.schedule, &save.ks.schedule, save.ks.rounds * 4) || tk.ks.rounds != save.ks.rounds || memcmp(tk.tweak, save.tweak, 8) ||
                         pk.rounds != psave.rounds || memcmp(pk.schedule, psave.schedule, psave.rounds * 4))) memset(o2, 0x77, 32);
        }
    } else {
        MantisKey_t ks, save; unsigned avail;
        fn = vh_below(&r, 2); cls = vh_below(&r, 6);
        fname = fn ? "mantis_set_tweak" : "mantis_set_key";
        L = fn ? 8 : 16;
        switch (cls) {
        case 0: null_obj = 1; cname = "null-object"; break;
        case 1: if (fn) { L = vh_below(&r, 8); cname = "tweak-len-bad"; } else cname = "null-key"; break;
        case 2: { static const uint32_t b2[] = {0, 1, 15, 17, 32, 7, 9}; L = b2[vh_below(&r, 7)]; if (L == (fn ? 8u : 16u)) L++; cname = fn ? "tweak-len-bad" : "key-size-bad"; break; }
        case 3: L = vh_below(&r, 2) ? big[vh_below(&r, 5)] : vh_wrap_len(&r, fn ? 8 : 16, fn ? 8 : 16); cname = fn ? "tweak-len-huge" : "key-size-huge"; break;
        case 4: if (fn) { L = 9 + vh_below(&r, 9); cname = "tweak-len-bad"; } else { R = vh_below(&r, 5); cname = "rounds-low"; } break;
        default: if (fn) { L = 0; cname = "tweak-len-0"; } else { R = vh_below(&r, 3) == 0 ? 9 + vh_below(&r, 5) : (vh_below(&r, 2) ? big[vh_below(&r, 5)] : ((1 + vh_below(&r, 3)) << (8 * (1 + vh_below(&r, 3)))) + 5 + vh_below(&r, 4)); cname = "rounds-high"; } break;
        }
        avail = L > 40 ? 1 + vh_below(&r, 40) : L;
        gb = vh_gback(0, avail, -1); memcpy(gb, bad, avail);
        kp = (!fn && cls == 1) ? NULL : gb;
        if (fn && !vh_below(&r, 3)) kp = NULL;
        snprintf(k_, sizeof(k_), "C14:mantis:%s:%s", fname, cname); vh_set_crash_key(k_);
        mantis_set_key(&ks, good, 16, 5 + vh_below(&r, 4), vh_below(&r, 2)); mantis_set_tweak(&ks, tweak, 8); save = ks;
        mantis_ecb_crypt(o1, blocks, &ks);
        vh_call_begin(fname);
        if (fn) ret = mantis_set_tweak(null_obj ? NULL : &ks, kp, L);
        else ret = mantis_set_key(null_obj ? NULL : &ks, kp, L, R, (int)vh_below(&r, 2));
        vh_call_end();
        mantis_ecb_crypt(o2, blocks, &ks);
        if (!ret && (ks.k0.llrow != save.k0.llrow || ks.k0prime.llrow != save.k0prime.llrow || ks.k1.llrow != save.k1.llrow || ks.tweak.llrow != save.tweak.llrow || ks.rounds != save.rounds)) memset(o2, 0x77, 32);
    }
    VH_COUNT("invalid_calls_checked", 1);
    if (vh_distinct(vh_hash(k_, strlen(k_), VH_HASH_INIT + L + ((uint64_t)R << 32) + (kp ? 1 : 0)))) VH_COUNT("distinct_nontrivial_cases", 1);
    {
        const char *badw = NULL; long wh;
        if (ret != 0) badw = "returned-nonzero";
        else if (memcmp(o1, o2, 32)) badw = "schedule-or-later-results-changed";
        else if (vh_gcheck(0, &wh)) badw = "canary-damaged";
        if (badw || vh_want_sample()) {
            vh_sb d; sb_init(&d);
            sb_printf(&d, "{\"call\":\"%s\",\"class\":\"%s\",\"length\":%u,\"rounds\":%u,\"pointer_null\":%s,\"ret\":%d}", k_, cname, L, R, kp ? "false" : "true", ret);
            if (badw) { char key[300]; snprintf(key, sizeof(key), "%s:%s", k_, badw); viol(key, idx, d.p); } else vh_sample(d.p);
            sb_free(&d);
        }
    }
}

/* ------------------------------------------------------------------ C11 (definedness at the API boundary) */
static void c11_case(uint64_t idx)
{
    vh_rng r; unsigned f = (unsigned)(idx % 8); uint64_t q = idx / 8;
    static const char *const kn[8] = {"skinny128_set_key", "skinny128_set_tweaked_key", "skinny128_set_tweak", "skinny64_set_key", "skinny64_set_tweaked_key", "skinny64_set_tweak", "mantis_set_key", "mantis_set_tweak"};
    unsigned bb = f < 3 ? 16 : 8, L; uint8_t src[64], blk[16], out[16]; int ret = 1, unlisted = 0; char k_[200];
    vh_rng_seed(&r, vh_seed, 0x11, idx);
    begin(idx, "C11");
    vh_rand_bytes(&r, src, 64); vh_rand_bytes(&r, blk, 16);
    switch (f % 3 + (f >= 6 ? 10 : 0)) {
    case 0: L = bb + (unsigned)(q % (2 * bb + 1)); break;
    case 1: L = bb + (unsigned)(q % (bb + 1)); break;
    case 2: L = 1 + (unsigned)(q % bb); break;
    case 10: L = 16; break;
    default: L = 8; break;
    }
    snprintf(k_, sizeof(k_), "C11:%s:len-%s", kn[f], (f % 3 != 2 && f < 6 && L % bb) ? "in-between" : "regular"); vh_set_crash_key(k_);
    if (vh_distinct(vh_hash(src, L, VH_HASH_INIT + f + 16 * L))) VH_COUNT("distinct_nontrivial_cases", 1);
    vh_paint_stack((int)vh_below(&r, 256), 20000);
    memset(out, 0, 16);
    if (f < 3) {
        Skinny128TweakedKey_t a;
        vh_make_undef(&a, sizeof(a));
        vh_call_begin(kn[f]);
        if (f == 0) ret = skinny128_set_key(&a.ks, src, L);
        else if (f == 1) ret = skinny128_set_tweaked_key(&a, src, L);
        else { ret = skinny128_set_tweaked_key(&a, src + 32, 16 + 16 * (q & 1)); ret &= skinny128_set_tweak(&a, (q & 64) ? NULL : src, L); }
        vh_call_end();
        vh_check_defined("return-value", &ret, sizeof(ret));
        vh_check_defined("schedule.rounds", &a.ks.rounds, sizeof(a.ks.rounds));
        if (ret && a.ks.rounds <= SKINNY128_MAX_ROUNDS) vh_check_defined("schedule.round-keys", a.ks.schedule, a.ks.rounds * sizeof(a.ks.schedule[0]));
        if (f) vh_check_defined("schedule.tweak", a.tweak, sizeof(a.tweak));
        vh_call_begin("skinny128_ecb_encrypt"); skinny128_ecb_encrypt(out, blk, &a.ks); vh_call_end();
        vh_check_defined("ciphertext", out, 16);
        vh_call_begin("skinny128_ecb_decrypt"); skinny128_ecb_decrypt(out, blk, &a.ks); vh_call_end();
        vh_check_defined("plaintext", out, 16);
    } else if (f < 6) {
        Skinny64TweakedKey_t a;
        vh_make_undef(&a, sizeof(a));
        vh_call_begin(kn[f]);
        if (f == 3) ret = skinny64_set_key(&a.ks, src, L);
        else if (f == 4) ret = skinny64_set_tweaked_key(&a, src, L);
        else { ret = skinny64_set_tweaked_key(&a, src + 32, 8 + 8 * (q & 1)); ret &= skinny64_set_tweak(&a, (q & 64) ? NULL : src, L); }
        vh_call_end();
        vh_check_defined("return-value", &ret, sizeof(ret));
        vh_check_defined("schedule.rounds", &a.ks.rounds, sizeof(a.ks.rounds));
        if (ret && a.ks.rounds <= SKINNY64_MAX_ROUNDS) vh_check_defined("schedule.round-keys", a.ks.schedule, a.ks.rounds * sizeof(a.ks.schedule[0]));
        if (f != 3) vh_check_defined("schedule.tweak", a.tweak, sizeof(a.tweak));
        vh_call_begin("skinny64_ecb_encrypt"); skinny64_ecb_encrypt(out, blk, &a.ks); vh_call_end();
        vh_check_defined("ciphertext", out, 8);
        vh_call_begin("skinny64_ecb_decrypt"); skinny64_ecb_decrypt(out, blk, &a.ks); vh_call_end();
        vh_check_defined("plaintext", out, 8);
    } else {
        MantisKey_t a;
        vh_make_undef(&a, sizeof(a));
        vh_call_begin(kn[f]);
        {   /* 1 case in 4: a mode value other than the two named ones.  Whether it is accepted is the library's business, but
               if the call reports success the schedule must be fully assigned (and if it fails nothing is looked at) */
            static const int odd[4] = {2, -1, 7, 0x100};
            int mode = (int)((q >> 2) & 1);
            if (((q >> 3) & 3) == 3) { mode = odd[(q >> 5) & 3]; unlisted = 1; VH_COUNT("mantis_set_key_calls_with_unlisted_mode_value", 1); }
            ret = mantis_set_key(&a, src, 16, 5 + (unsigned)(q % 4), mode);
        }
        if (f == 7 && ret) ret &= mantis_set_tweak(&a, (q & 64) ? NULL : src + 16, 8);
        vh_call_end();
        vh_check_defined("return-value", &ret, sizeof(ret));
        if (unlisted && !ret) { VH_COUNT("key_setting_calls_checked", 1); return; }
        vh_check_defined("schedule.k0", &a.k0, 8); vh_check_defined("schedule.k0prime", &a.k0prime, 8); vh_check_defined("schedule.k1", &a.k1, 8);
        vh_check_defined("schedule.tweak", &a.tweak, 8); vh_check_defined("schedule.rounds", &a.rounds, sizeof(a.rounds));
        vh_call_begin("mantis_ecb_crypt"); mantis_ecb_crypt(out, blk, &a); vh_call_end();
        vh_check_defined("output", out, 8);
        vh_call_begin("mantis_ecb_crypt_tweaked"); mantis_ecb_crypt_tweaked(out, blk, src + 24, &a); vh_call_end();
        vh_check_defined("output", out, 8);
    }
    VH_COUNT("boundary_assertions", 6);
    VH_COUNT("key_setting_calls_checked", 1);
    if (ret != 1) { char key[300]; snprintf(key, sizeof(key), "%s:valid-call-rejected", k_); viol(key, idx, "{}"); }
    if (vh_want_sample()) { char d[200]; snprintf(d, sizeof(d), "{\"function\":\"%s\",\"length\":%u,\"struct_prefilled\":\"undefined\",\"fields_checked\":\"rounds, round keys, tweak / k0,k0prime,k1,tweak,rounds; outputs\"}", kn[f], L); vh_sample(d); }
}

int main(int argc, char **argv)
{
    int i;
    vh_init(argc, argv);
    prop = vh_getarg("prop", "C10");
    if (ref_selftest()) { printf("{\"type\":\"harness_error\",\"detail\":\"ref selftest\"}\n"); return 2; }
    vh_guard_init();
    vh_install_fault_handler();
    for (i = 0; i < CIPH_N; ++i) { maxbe[i] = vh_max_backend(&vh_ciphers[i]); if (maxbe[i] < 0) { printf("{\"type\":\"inconclusive\",\"reason\":\"cannot identify back end\"}\n"); return 2; } }
    if (!strcmp(vh_arg_mode, "c10")) vh_run(c10_case);
    else if (!strcmp(vh_arg_mode, "c14")) vh_run(c14_case);
    else if (!strcmp(vh_arg_mode, "c11")) {
        if (!vh_def_available()) { printf("{\"type\":\"inconclusive\",\"reason\":\"definedness monitor not available in this build/run\"}\n"); return 2; }
        {   /* positive control: an uninitialised local must be reported as undefined, an initialised one not */
            volatile uint8_t u[8]; uint8_t dfn[8] = {0}; uint8_t *up = (uint8_t *)u;
            vh_make_undef(up, 8);
            if (vh_first_undef(up, 8) != 0 || vh_first_undef(dfn, 8) != -1) { printf("{\"type\":\"harness_error\",\"detail\":\"definedness positive control failed\"}\n"); return 2; }
            *vh_counter_ref("max_definedness_positive_control") = 1;
        }
        vh_run(c11_case);
    }
    else { fprintf(stderr, "drv_keys: unknown mode\n"); return 2; }
    vh_finish();
    return 0;
}
