/* Driver for CTR-object histories.
 *   --prop C05 --mode model   : every back end against the reference CTR model
 *   --prop C04 --mode model-tweaked : same, tweaked keying only, many tweak changes
 *   --prop C06 --mode xbe     : transcripts equal across back ends (whole API, incl. mid-stream rekey, invalid calls)
 *   --prop C14 --mode twin    : invalid calls return 0 and change nothing (twin histories)
 */
#include "hist.h"
#include <string.h>
#include <stdlib.h>

static const char *prop = "C05";
static int maxbe[CIPH_N];
static chist H, H2;
static ctrans T[3], TM, T2;

static void replay_json(vh_sb *s, uint64_t idx, const chist *h)
{
    sb_printf(s, "{\"driver\":\"drv_ctr\",\"prop\":\"%s\",\"mode\":\"%s\",\"seed\":%llu,\"case\":%llu,\"variant\":\"%s\",\"history\":",
              prop, vh_arg_mode, (unsigned long long)vh_seed, (unsigned long long)idx, vh_variant);
    chist_json(h, s);
    sb_printf(s, "}");
}

static void report(const char *cipher, int be, const char *cls, uint64_t idx, const chist *h, int opi, const ctrans *obs, const ctrans *exp_)
{
    char key[256]; vh_sb d, rp;
    snprintf(key, sizeof(key), "%s:%s:%s:%s", prop, cipher, be >= 0 ? vh_backend_names[be] : "unknown", cls);
    sb_init(&d); sb_init(&rp);
    sb_printf(&d, "{\"op_index\":%d", opi);
    if (opi >= 0 && opi < h->n) {
        sb_printf(&d, ",\"op\":\"%s\",\"class\":\"%s\",\"len\":%u,\"ret_observed\":%d", c_kind_names[h->ops[opi].kind], h->ops[opi].cls ? h->ops[opi].cls : "", h->ops[opi].len, obs ? obs->r[opi].ret : -99);
        if (exp_) sb_printf(&d, ",\"ret_expected\":%d", exp_->r[opi].ret);
        if (obs && exp_ && obs->r[opi].olen) {
            uint32_t k, n = obs->r[opi].olen < exp_->r[opi].olen ? obs->r[opi].olen : exp_->r[opi].olen;
            for (k = 0; k < n; ++k) if (obs->out[obs->r[opi].ooff + k] != exp_->out[exp_->r[opi].ooff + k]) break;
            sb_printf(&d, ",\"first_diff_byte\":%u,\"observed\":", k);
            sb_hexn(&d, obs->out + obs->r[opi].ooff + (k > 8 ? k - 8 : 0), obs->r[opi].olen - (k > 8 ? k - 8 : 0), 32);
            sb_printf(&d, ",\"expected\":");
            sb_hexn(&d, exp_->out + exp_->r[opi].ooff + (k > 8 ? k - 8 : 0), exp_->r[opi].olen - (k > 8 ? k - 8 : 0), 32);
        }
    }
    sb_printf(&d, "}");
    replay_json(&rp, idx, h);
    vh_violation(key, d.p, rp.p);
    sb_free(&d); sb_free(&rp);
}

/* structured C05 cases: every total length 0..3 batches+17 with fixed cut patterns */
static void gen_structured(chist *h, const vh_cipher *c, uint64_t k, vh_rng *r)
{
    unsigned bb = c->bb, batch = bb * 8, span = 3 * batch + 18;
    unsigned total = (unsigned)(k % span), pattern = (unsigned)((k / span) % 6);
    unsigned ctr_kind = (unsigned)((k / span / 6) % 6);
    uint8_t buf[64];
    cop *o;
    unsigned left;
    h->c = c; h->n = 0; h->pool_n = 0;
    memset(&h->ops[0], 0, sizeof(cop)); h->ops[0].kind = C_INIT; h->ops[0].mis_a = h->ops[0].mis_b = -1; h->ops[0].cls = "init"; h->n = 1;
    /* key */
    o = &h->ops[h->n++]; memset(o, 0, sizeof(*o)); o->mis_a = o->mis_b = -1;
    {
        int tw = c->has_tkey && (k & 1);
        unsigned nprim = (tw ? c->tkey_max : c->key_max) / bb;
        o->kind = tw ? C_SET_TKEY : C_SET_KEY; o->cls = tw ? "set_tweaked_key" : "set_key";
        o->len = c->id == CIPH_MANTIS ? 16 : bb * (1 + vh_below(r, nprim));
        o->rounds = 5 + vh_below(r, 4);
        vh_rand_bytes(r, buf, o->len);
        o->doff = (uint32_t)h->pool_n; memcpy(h->pool + h->pool_n, buf, o->len); h->pool_n += o->len; o->dlen = o->len;
        if (tw || c->id == CIPH_MANTIS) {
            if (vh_below(r, 2)) {
                o = &h->ops[h->n++]; memset(o, 0, sizeof(*o)); o->mis_a = o->mis_b = -1;
                o->kind = C_SET_TWEAK; o->cls = "set_tweak"; o->len = c->id == CIPH_MANTIS ? 8 : 1 + vh_below(r, bb);
                vh_rand_bytes(r, buf, o->len);
                o->doff = (uint32_t)h->pool_n; memcpy(h->pool + h->pool_n, buf, o->len); h->pool_n += o->len; o->dlen = o->len;
            }
        }
    }
    /* counter: 0 = default after init (no call); others explicit with the carry boundary moved around */
    if (ctr_kind != 0) {
        unsigned kk;
        o = &h->ops[h->n++]; memset(o, 0, sizeof(*o)); o->mis_a = o->mis_b = -1;
        o->kind = C_SET_COUNTER; o->cls = "set_counter"; o->len = bb;
        memset(buf, 0, 16);
        switch (ctr_kind) {
        case 1: memset(buf, 0xFF, bb); buf[bb - 1] = (uint8_t)(0xFF - (k % 9)); break;          /* wrap */
        case 2: kk = 1 + (unsigned)(k % bb); memset(buf + bb - kk, 0xFF, kk); buf[bb - 1] = (uint8_t)(0xFF - (k % 5)); break;
        case 3: vh_rand_bytes(r, buf, bb); break;
        case 5: vh_fill_msb_boundary(r, buf, bb); break;
        default: o->len = (unsigned)(k % (bb + 1)); vh_rand_bytes(r, buf, bb); if (o->len) buf[o->len - 1] = 0xFE; break;
        }
        o->doff = (uint32_t)h->pool_n; memcpy(h->pool + h->pool_n, buf, o->len); h->pool_n += o->len; o->dlen = o->len;
    }
    left = total;
    while (h->n < H_MAXOPS - 2) {
        unsigned n;
        switch (pattern) {
        case 0: n = left; break;                               /* one call */
        case 1: n = left ? 1 : 0; break;                       /* byte by byte (first 150 then rest) */
        case 2: n = left < bb ? left : bb; break;              /* block by block */
        case 3: n = left < bb + 1 ? left : bb + 1; break;      /* block+1 */
        case 4: n = left ? 1 + vh_below(r, left) : 0; break;   /* random cuts */
        default: n = vh_below(r, 3) ? (left ? 1 + vh_below(r, left < 70 ? left : 70) : 0) : 0; break; /* with zero-length calls */
        }
        if (pattern == 1 && h->n > 140) n = left;
        o = &h->ops[h->n++]; memset(o, 0, sizeof(*o)); o->mis_a = o->mis_b = -1;
        o->kind = C_ENCRYPT; o->cls = "encrypt"; o->len = n; o->dlen = n;
        o->doff = (uint32_t)h->pool_n; vh_rand_bytes(r, h->pool + h->pool_n, n); h->pool_n += n;
        if (k & 2) o->flags |= F_INPLACE;
        left -= n;
        if (!left && !(pattern == 5 && vh_below(r, 2))) break;
    }
    o = &h->ops[h->n++]; memset(o, 0, sizeof(*o)); o->mis_a = o->mis_b = -1; o->kind = C_CLEANUP; o->cls = "cleanup(final)";
    {   /* annotate through the public generator path: re-run model annotation */
        chist_annotate(h);
    }
}

static void observe(const chist *h)
{
    VH_COUNT("histories", 1);
    VH_COUNT("ops", h->n);
    VH_COUNT("segments", h->n_segments);
    VH_COUNT("judged_bytes", h->n_judged_bytes);
    VH_COUNT("counter_wraparounds", h->n_wraps);
    VH_COUNT("zero_length_calls", h->n_zero_calls);
    VH_COUNT("midstream_key_or_tweak_changes", h->n_midrekey);
    VH_COUNT("invalid_calls", h->n_invalid);
    VH_MAXC("max_carry_chain_bytes", h->n_carry_bytes_max);
}

static int since_init_no_counter(const chist *h, int opi)
{
    int i;
    for (i = opi; i >= 0; --i) {
        if (h->ops[i].kind == C_SET_COUNTER && h->ops[i].expect == 1) return 0;
        if (h->ops[i].kind == C_INIT && h->ops[i].expect == 1) return 1;
    }
    return 0;
}
static int midstream_change_before(const chist *h, int opi)
{
    /* is there a key/tweak change after data in the current counter segment before opi? */
    int i, data = 0, chg = 0;
    for (i = 0; i <= opi; ++i) {
        const cop *o = &h->ops[i];
        if (o->expect != 1) continue;
        if (o->kind == C_INIT || o->kind == C_SET_COUNTER) { data = 0; chg = 0; }
        else if (o->kind == C_ENCRYPT && o->len) data = 1;
        else if ((o->kind == C_SET_KEY || o->kind == C_SET_TKEY || o->kind == C_SET_TWEAK) && data) chg = 1;
    }
    return chg;
}

static unsigned gflags_for_mode(void)
{
    if (!strcmp(vh_arg_mode, "model")) return G_MISALIGN | G_INBETWEEN_KEYS | G_INVALID;     /* rejected calls are not key/tweak/counter changes: the judged stream continues across them */
    if (!strcmp(vh_arg_mode, "model-tweaked")) return G_MISALIGN | G_TWEAKED_ONLY | G_SMALL | G_INBETWEEN_KEYS | G_INVALID;
    if (!strcmp(vh_arg_mode, "xbe")) return G_MISALIGN | G_LIFECYCLE | G_INVALID | G_REKEY_MID | G_UNKEYED | G_PLAIN_TWEAK | G_INBETWEEN_KEYS;
    if (!strcmp(vh_arg_mode, "twin")) return G_MISALIGN | G_LIFECYCLE | G_INVALID | G_REKEY_MID | G_UNKEYED | G_SMALL | G_INBETWEEN_KEYS;
    fprintf(stderr, "drv_ctr: unknown mode %s\n", vh_arg_mode); exit(2);
}

/* ------------------------------------------------------------------ */
/* marathon: one object lives through tens of thousands of calls (tiny and
 * huge encrypts, hundreds of rekeys / tweak changes / counter sets), checked
 * incrementally against the reference stream.  Reaches what short histories
 * cannot: call counters, long streams, large single calls. */
typedef struct { int mode; uint8_t key[48]; unsigned klen, rounds; uint8_t tweak[16]; uint8_t ctr[16]; uint64_t pos; int scope; } mara_t;
static void mara_ks(const vh_cipher *c, const mara_t *m, uint64_t blk, uint8_t *ks)
{
    uint8_t cb[16];
    memcpy(cb, m->ctr, c->bb); ref_ctr_add(cb, c->bb, blk);
    if (c->id == CIPH_MANTIS) ref_mantis_encrypt(m->rounds, m->key, m->tweak, cb, ks);
    else if (m->mode == 1) ref_skinny_key_crypt(c->bb, m->key, m->klen, 0, cb, ks);
    else ref_skinny_tweaked_crypt(c->bb, m->key, m->klen, m->tweak, c->bb, 0, cb, ks);
}
static void marathon_case(uint64_t idx)
{
    vh_rng r; const vh_cipher *c = &vh_ciphers[idx % CIPH_N];
    int be = (int)((idx / CIPH_N) % (uint64_t)(maxbe[c->id] + 1));
    uint64_t nops = strtoull(vh_getarg("marathon-ops", "70000"), NULL, 0), op, calls = 0, rekeys = 0, bigcalls = 0;
    uint32_t bigfreq = (uint32_t)strtoul(vh_getarg("marathon-bigfreq", "9000"), NULL, 0);
    static uint8_t in[1200000], out[1200000], exp_[1200000];
    vh_handle h; mara_t m; char pfx[160], d[400];
    vh_rng_seed(&r, vh_seed, 0xA7, idx);
    snprintf(d, sizeof(d), "{\"driver\":\"drv_ctr\",\"prop\":\"%s\",\"mode\":\"marathon\",\"seed\":%llu,\"case\":%llu,\"variant\":\"%s\"}", prop, (unsigned long long)vh_seed, (unsigned long long)idx, vh_variant);
    snprintf(pfx, sizeof(pfx), "%s:%s:%s:marathon", prop, c->name, vh_backend_names[be]);
    vh_case_begin(idx, pfx, d);
    memset(&h, 0, sizeof(h)); memset(&m, 0, sizeof(m));
    vh_set_cap(be);
    vh_call_begin("ctr_init"); c->ctr_init(&h); vh_call_end();
    if (c->ctr_backend(&h) != be) { vh_violation("C05:backend-not-pinned", "{}", d); c->ctr_cleanup(&h); return; }
    m.scope = 0;
    for (op = 0; op < nops; ++op) {
        uint32_t x = m.mode ? vh_below(&r, 1000) : 999;
        int big = m.mode && (vh_below(&r, bigfreq) == 0 || op == nops / 2);
        if (big && vh_below(&r, 2) && x < 960) x = 960;        /* half of the large calls start right at a counter set (batch boundary) */
        if (x >= 990) {            /* new key (then counter) */
            int tw = c->has_tkey && vh_below(&r, 2);
            m.klen = c->id == CIPH_MANTIS ? 16 : c->bb + vh_below(&r, (tw ? 1 : 2) * c->bb + 1);
            m.rounds = 5 + vh_below(&r, 4); m.mode = tw ? 2 : 1;
            memset(m.key, 0, sizeof(m.key)); vh_rand_bytes(&r, m.key, m.klen); memset(m.tweak, 0, 16);
            vh_call_begin("ctr_set_key"); if (tw) c->ctr_set_tkey(&h, m.key, m.klen); else c->ctr_set_key(&h, m.key, m.klen, m.rounds); vh_call_end();
            m.scope = 0; ++rekeys;
        } else if (x >= 975 && (m.mode == 2 || c->id == CIPH_MANTIS)) {
            unsigned tl = c->id == CIPH_MANTIS ? 8 : 1 + vh_below(&r, c->bb);
            memset(m.tweak, 0, 16); vh_rand_bytes(&r, m.tweak, tl);
            vh_call_begin("ctr_set_tweak"); c->ctr_set_tweak(&h, m.tweak, tl); vh_call_end();
            m.scope = 0; ++rekeys;
        }
        if (!m.scope || x >= 960) {   /* counter set starts a judged segment */
            unsigned cl = vh_below(&r, 4) ? c->bb : vh_below(&r, c->bb + 1);
            uint8_t cb[16]; vh_rand_bytes(&r, cb, 16);
            if (!vh_below(&r, 4)) vh_fill_msb_boundary(&r, cb, cl);
            else if (!vh_below(&r, 3)) { unsigned k = cl ? 1 + vh_below(&r, cl) : 0; if (k) memset(cb + cl - k, 0xFF, k); if (cl) cb[cl - 1] = (uint8_t)(0xFF - vh_below(&r, 30)); }
            memset(m.ctr, 0, 16); memcpy(m.ctr + c->bb - cl, cb, cl);
            vh_call_begin("ctr_set_counter"); c->ctr_set_counter(&h, cb, cl); vh_call_end();
            m.pos = 0; m.scope = 1;
        }
        {
            size_t n = vh_below(&r, 48), k; uint64_t cur = (uint64_t)-1; uint8_t ks[16]; int ret;
            if (big) { n = 65536 + vh_below(&r, 1000000); ++bigcalls; }   /* a few very large calls */
            else if (vh_below(&r, 400) == 0) n = 3000 + vh_below(&r, 9000);
            vh_rand_bytes(&r, in, n > 256 ? 256 : n); if (n > 256) memset(in + 256, (int)(op & 0xFF), n - 256);
            for (k = 0; k < n; ++k) { uint64_t p = m.pos + k, b = p / c->bb; if (b != cur) { mara_ks(c, &m, b, ks); cur = b; } exp_[k] = in[k] ^ ks[p % c->bb]; }
            if (op & 1) vh_make_undef(out, n);           /* whatever the output buffer held before must not matter */
            vh_call_begin("ctr_encrypt"); ret = c->ctr_encrypt((op & 1) ? out : in, in, n, &h); vh_call_end();
            ++calls; VH_COUNT("judged_bytes", n);
            if (vh_def_available()) { vh_check_defined("return-value", &ret, sizeof(ret)); vh_check_defined("output", (op & 1) ? out : in, n); }
            if (ret != 1 || memcmp((op & 1) ? out : in, exp_, n)) {
                size_t q = 0; const uint8_t *o = (op & 1) ? out : in; vh_sb sd; char key[200];
                while (q < n && o[q] == exp_[q]) ++q;
                sb_init(&sd);
                sb_printf(&sd, "{\"cipher\":\"%s\",\"backend\":\"%s\",\"call_number\":%llu,\"rekeys_so_far\":%llu,\"call_length\":%lu,\"stream_position\":%llu,\"first_diff_byte\":%lu,\"ret\":%d}",
                          c->name, vh_backend_names[be], (unsigned long long)calls, (unsigned long long)rekeys, (unsigned long)n, (unsigned long long)m.pos, (unsigned long)q, ret);
                snprintf(key, sizeof(key), "%s:%s:%s:stream-mismatch-in-long-lived-object", prop, c->name, vh_backend_names[be]);
                vh_violation(key, sd.p, d); sb_free(&sd);
                break;
            }
            m.pos += n;
        }
    }
    vh_call_begin("ctr_cleanup"); c->ctr_cleanup(&h); vh_call_end();
    VH_COUNT("marathon_objects", 1); VH_COUNT("marathon_calls", calls); VH_COUNT("marathon_rekeys_and_tweak_changes", rekeys); VH_COUNT("marathon_calls_of_64KiB_or_more", bigcalls);
    VH_MAXC("max_calls_on_one_object", calls);
    if (vh_distinct(vh_hash(&idx, 8, vh_seed ^ 0xA7A7))) VH_COUNT("distinct_nontrivial_histories", 1);
    if (vh_want_sample()) { snprintf(d, sizeof(d), "{\"marathon\":\"%s\",\"backend\":\"%s\",\"calls\":%llu,\"rekeys_and_tweak_changes\":%llu,\"calls_of_64KiB_or_more\":%llu}", c->name, vh_backend_names[be], (unsigned long long)calls, (unsigned long long)rekeys, (unsigned long long)bigcalls); vh_sample(d); }
}

/* xbe, long streams: 0.5 .. 1.3 MiB are generated on one object since the last counter set (in a few calls), then the key or
   tweak is changed in the middle of a block/batch and more data follows.  Everything the object returns is hashed and must be
   the same on every back end: positions kept in narrow counters, or rewinds computed from them, diverge only here. */
static void long_stream_rekey(uint64_t idx, const vh_cipher *c, vh_rng *r0)
{
    static uint8_t buf[1400000]; uint64_t hsh[3] = {0, 0, 0}; int rets[3] = {0, 0, 0}, be, nbe = maxbe[c->id] + 1; char pfx[128];
    uint64_t seed = vh_rand(r0);
    for (be = 0; be < nbe; ++be) {
        vh_rng r; vh_handle h; uint8_t key[48], tw[32], ctr[16], tail[400]; size_t total, done = 0; int ret = 1, tweaked, what;
        vh_rng_seed(&r, seed, 0xC8, 1);
        memset(&h, 0, sizeof(h)); vh_set_cap(be);
        snprintf(pfx, sizeof(pfx), "%s:%s:%s:long-stream-rekey", prop, c->name, vh_backend_names[be]); vh_set_crash_key(pfx);
        vh_rand_bytes(&r, key, 48); vh_rand_bytes(&r, tw, 32); vh_rand_bytes(&r, ctr, 16);
        tweaked = c->has_tkey && vh_below(&r, 2);
        total = 524288 + 8 * c->bb + vh_below(&r, 800000);
        if (vh_below(&r, 2)) vh_fill_msb_boundary(&r, ctr, c->bb);
        vh_call_begin("long stream");
        ret &= c->ctr_init(&h);
        ret &= tweaked ? c->ctr_set_tkey(&h, key, 2 * c->bb) : c->ctr_set_key(&h, key, 16, 7);
        if (tweaked || c->id == CIPH_MANTIS) ret &= c->ctr_set_tweak(&h, tw, c->id == CIPH_MANTIS ? 8 : c->bb);
        ret &= c->ctr_set_counter(&h, ctr, c->bb);
        while (done < total) { size_t n = vh_below(&r, 3) ? 1 + vh_below(&r, 300000) : 1 + vh_below(&r, 200); if (n > total - done) n = total - done; memset(buf, 0, n); ret &= c->ctr_encrypt(buf, buf, n, &h); hsh[be] = vh_hash(buf, n, hsh[be] + n); done += n; }
        { size_t n = 1 + vh_below(&r, 8 * c->bb - 1); memset(buf, 0, n); ret &= c->ctr_encrypt(buf, buf, n, &h); hsh[be] = vh_hash(buf, n, hsh[be]); }   /* stop inside a batch */
        what = (int)vh_below(&r, 3);
        if (what == 0 && (tweaked || c->id == CIPH_MANTIS)) ret &= c->ctr_set_tweak(&h, tw + 3, c->id == CIPH_MANTIS ? 8 : c->bb);
        else if (what == 1 && c->has_tkey) ret &= c->ctr_set_tkey(&h, key + 5, 2 * c->bb);
        else ret &= c->ctr_set_key(&h, key + 9, 16, 6);
        memset(tail, 0, sizeof(tail)); ret &= c->ctr_encrypt(tail, tail, sizeof(tail), &h); hsh[be] = vh_hash(tail, sizeof(tail), hsh[be]);
        c->ctr_cleanup(&h);
        vh_call_end();
        rets[be] = ret;
        VH_COUNT("long_stream_rekey_runs", 1); VH_MAXC("max_bytes_generated_before_a_mid_batch_rekey", total);
    }
    for (be = 1; be < nbe; ++be) if (hsh[be] != hsh[0] || rets[be] != rets[0]) {
        char key_[200], d[200];
        snprintf(key_, sizeof(key_), "%s:%s:%s:long-stream-rekey-differs-from-generic", prop, c->name, vh_backend_names[be]);
        snprintf(d, sizeof(d), "{\"cipher\":\"%s\",\"backend\":\"%s\",\"rets\":[%d,%d],\"driver\":\"drv_ctr\",\"mode\":\"xbe\",\"case\":%llu}", c->name, vh_backend_names[be], rets[0], rets[be], (unsigned long long)idx);
        vh_violation(key_, d, d);
    }
}

/* xbe, change counts: an object is used, then its key / tweaked key / tweak is changed exactly N times in a row (N around 2^8 and
   2^16, where narrow generation counters wrap), then used again.  What it returns must equal what a fresh object returns that only
   ever saw the last of those values: whatever the object remembers about earlier keys or tweaks must not depend on how many there were. */
static void change_count_case(uint64_t idx, const vh_cipher *c, vh_rng *r)
{
    static const unsigned NS[] = {255, 256, 257, 511, 512, 513, 65535, 65536, 65537, 1, 2, 131072};
    unsigned N = NS[(idx / 40) % 12], kind = (unsigned)((idx / 480) % 3), k; int be, nbe = maxbe[c->id] + 1; char pfx[160];
    uint8_t key[48], tw[16], ctr[16], last[48], in[300], o1[300], o2[300], w1[300], w2[300];
    vh_rand_bytes(r, key, 48); vh_rand_bytes(r, tw, 16); vh_rand_bytes(r, ctr, 16); vh_rand_bytes(r, in, sizeof(in));
    if (kind == 1 && !c->has_tkey) kind = 0;
    if (kind == 2 && !(c->has_tkey || c->id == CIPH_MANTIS)) kind = 0;
    for (be = 0; be < nbe; ++be) {
        vh_handle h, f; int tweaked = (kind != 0) && c->has_tkey, ra = 1, rb = 1; unsigned tl = c->id == CIPH_MANTIS ? 8 : c->bb;
        vh_rng q; vh_rng_seed(&q, vh_rand(r), 0xC9, 7);
        memset(&h, 0, sizeof(h)); memset(&f, 0, sizeof(f)); vh_set_cap(be);
        snprintf(pfx, sizeof(pfx), "%s:%s:%s:change-count", prop, c->name, vh_backend_names[be]); vh_set_crash_key(pfx);
        vh_call_begin("change-count history");
        ra &= c->ctr_init(&h);
        ra &= tweaked ? c->ctr_set_tkey(&h, key, 2 * c->bb) : c->ctr_set_key(&h, key, 16, 7);
        if (kind == 2) ra &= c->ctr_set_tweak(&h, tw, tl);
        ra &= c->ctr_set_counter(&h, ctr, c->bb); ra &= c->ctr_encrypt(w1, in, 200, &h);              /* first use: lazily built state is now current */
        memcpy(last, key, 48);
        for (k = 0; k < N; ++k) {
            vh_rand_bytes(&q, last, kind == 2 ? tl : 32);
            if (kind == 0) ra &= c->ctr_set_key(&h, last, 16, 7); else if (kind == 1) ra &= c->ctr_set_tkey(&h, last, 2 * c->bb); else ra &= c->ctr_set_tweak(&h, last, tl);
        }
        ra &= c->ctr_set_counter(&h, ctr, c->bb); ra &= c->ctr_encrypt(o1, in, sizeof(in), &h);
        c->ctr_cleanup(&h);
        /* fresh object that only ever sees the final value */
        rb &= c->ctr_init(&f);
        if (kind == 0) rb &= c->ctr_set_key(&f, last, 16, 7);
        else if (kind == 1) rb &= c->ctr_set_tkey(&f, last, 2 * c->bb);
        else { rb &= tweaked ? c->ctr_set_tkey(&f, key, 2 * c->bb) : c->ctr_set_key(&f, key, 16, 7); rb &= c->ctr_set_tweak(&f, last, tl); }
        rb &= c->ctr_set_counter(&f, ctr, c->bb); rb &= c->ctr_encrypt(o2, in, sizeof(in), &f);
        c->ctr_cleanup(&f);
        vh_call_end();
        (void)w2;
        VH_COUNT("change_count_histories", 1); VH_MAXC("max_consecutive_key_or_tweak_changes_on_one_object", N);
        if (ra != 1 || rb != 1 || memcmp(o1, o2, sizeof(in))) {
            static const char *const kn[3] = {"set_key", "set_tweaked_key", "set_tweak"}; char key_[220], d[260];
            snprintf(key_, sizeof(key_), "%s:%s:%s:result-depends-on-the-number-of-earlier-%s-calls", prop, c->name, vh_backend_names[be], kn[kind]);
            snprintf(d, sizeof(d), "{\"cipher\":\"%s\",\"backend\":\"%s\",\"changes\":%u,\"kind\":\"%s\",\"rets\":[%d,%d],\"driver\":\"drv_ctr\",\"mode\":\"xbe\",\"case\":%llu}", c->name, vh_backend_names[be], N, kn[kind], ra, rb, (unsigned long long)idx);
            vh_violation(key_, d, d);
        }
    }
}

/* model mode, fork: a CTR object keyed and part-way through a stream in one process continues in a forked child (pre-forked
   workers); child and parent must both continue with the reference stream */
#include <sys/wait.h>
#include <unistd.h>
static void fork_case(uint64_t idx, const vh_cipher *c, vh_rng *r)
{
    int be, nbe = maxbe[c->id] + 1; uint8_t key[48], ctr[16], z[200], want[400], got[200]; unsigned pre = 1 + vh_below(r, 150);
    vh_rand_bytes(r, key, 48); vh_rand_bytes(r, ctr, 16); memset(z, 0, sizeof(z));
    for (be = 0; be < nbe; ++be) {
        vh_handle h, f; pid_t pid; int st = 0, okp; char pfx[160];
        memset(&h, 0, sizeof(h)); memset(&f, 0, sizeof(f)); vh_set_cap(be);
        snprintf(pfx, sizeof(pfx), "%s:%s:%s:used-in-a-forked-child", prop, c->name, vh_backend_names[be]); vh_set_crash_key(pfx);
        /* reference: one object, one call, never forked (the model comparison of the other cases ties this to the specification) */
        c->ctr_init(&f); c->ctr_set_key(&f, key, 16, 7); c->ctr_set_counter(&f, ctr, c->bb); c->ctr_encrypt(want, z, pre, &f); c->ctr_encrypt(want + pre, z, 200, &f); c->ctr_cleanup(&f);
        c->ctr_init(&h); c->ctr_set_key(&h, key, 16, 7); c->ctr_set_counter(&h, ctr, c->bb); c->ctr_encrypt(got, z, pre, &h);
        fflush(stdout);
        pid = fork();
        if (pid == 0) { int ok = c->ctr_encrypt(got, z, 200, &h) && !memcmp(got, want + pre, 200); c->ctr_cleanup(&h); _exit(ok ? 0 : 1); }
        if (pid > 0) waitpid(pid, &st, 0);
        okp = c->ctr_encrypt(got, z, 200, &h) && !memcmp(got, want + pre, 200);
        c->ctr_cleanup(&h);
        VH_COUNT("objects_used_in_a_forked_child", 1);
        if (pid > 0 && (!WIFEXITED(st) || WEXITSTATUS(st) != 0 || !okp)) {
            char key_[240], d[200];
            snprintf(key_, sizeof(key_), "%s:%s:%s:used-in-a-forked-child:%s", prop, c->name, vh_backend_names[be], okp ? "child-stream-differs" : "parent-stream-differs-after-fork");
            snprintf(d, sizeof(d), "{\"child_status\":%d,\"driver\":\"drv_ctr\",\"mode\":\"model\",\"case\":%llu}", st, (unsigned long long)idx);
            vh_violation(key_, d, d);
        }
    }
}

static void one_case(uint64_t idx)
{
    vh_rng r;
    const vh_cipher *c = &vh_ciphers[idx % CIPH_N];
    unsigned g = gflags_for_mode();
    int be, nbe = maxbe[c->id] + 1;
    char pfx[128];
    uint64_t nstruct = strtoull(vh_getarg("structured", "0"), NULL, 0);
    vh_rng_seed(&r, vh_seed, 0xC7, idx);
    {
        vh_sb d; sb_init(&d);
        sb_printf(&d, "{\"driver\":\"drv_ctr\",\"prop\":\"%s\",\"mode\":\"%s\",\"seed\":%llu,\"case\":%llu,\"variant\":\"%s\"}", prop, vh_arg_mode,
                  (unsigned long long)vh_seed, (unsigned long long)idx, vh_variant);
        snprintf(pfx, sizeof(pfx), "%s:%s", prop, c->name);
        vh_case_begin(idx, pfx, d.p); sb_free(&d);
    }
    if (!strcmp(vh_arg_mode, "xbe") && idx % 40 == 17) { long_stream_rekey(idx, c, &r); return; }
    if (!strcmp(vh_arg_mode, "xbe") && idx % 40 == 23) { change_count_case(idx, c, &r); return; }
    if (!strcmp(vh_arg_mode, "model") && idx >= nstruct && idx % 40 == 33) { fork_case(idx, c, &r); return; }
    if (!strcmp(vh_arg_mode, "model") && idx < nstruct) { gen_structured(&H, c, idx / CIPH_N, &r); VH_COUNT("structured_cases", 1); }
    else chist_gen(&H, c, &r, g);
    observe(&H);
    if (vh_distinct(chist_hash(&H)) && H.n > 2) VH_COUNT("distinct_nontrivial_histories", 1);
    if (vh_want_sample()) { vh_sb s; sb_init(&s); chist_json(&H, &s); vh_sample(s.p); sb_free(&s); }

    if (!strncmp(vh_arg_mode, "model", 5)) {
        chist_model(&H, &TM);
        for (be = 0; be < nbe; ++be) {
            int opi, what;
            vh_set_cap(be);
            snprintf(pfx, sizeof(pfx), "%s:%s:%s", prop, c->name, vh_backend_names[be]);
            chist_run(&H, &T[be], pfx);
            if (T[be].backend != be) { report(c->name, be, "backend-not-pinned", idx, &H, -1, NULL, NULL); continue; }
            { static char cn[3][3][40]; if (!cn[c->id][be][0]) snprintf(cn[c->id][be], 40, "runs_%s_%s", c->name, vh_backend_names[be]); *vh_counter_ref(cn[c->id][be]) += 1; }
            if (T[be].canary_damage) report(c->name, be, "canary-damaged", idx, &H, T[be].canary_damage - 1, &T[be], NULL);
            if (T[be].rejected_wrote) report(c->name, be, "rejected-call-wrote-to-the-output-buffer", idx, &H, T[be].rejected_wrote - 1, &T[be], NULL);
            opi = ctrans_diff(H.ops, H.n, &T[be], &TM, 1, &what);
            if (opi >= 0) {
                const char *cls = what == 0 ? "return-value" : (since_init_no_counter(&H, opi) ? "stream-mismatch-default-counter-after-init" : "stream-mismatch");
                if (what == 0 && H.ops[opi].cls) { static char cb[96]; snprintf(cb, sizeof(cb), "return-value:%s", H.ops[opi].cls); cls = cb; }
                report(c->name, be, cls, idx, &H, opi, &T[be], &TM);
            }
        }
    } else if (!strcmp(vh_arg_mode, "xbe")) {
        for (be = 0; be < nbe; ++be) {
            vh_set_cap(be);
            snprintf(pfx, sizeof(pfx), "%s:%s:%s", prop, c->name, vh_backend_names[be]);
            chist_run(&H, &T[be], pfx);
            if (T[be].backend >= 0 && T[be].backend != be) report(c->name, be, "backend-not-pinned", idx, &H, -1, NULL, NULL);
            if (T[be].canary_damage) report(c->name, be, "canary-damaged", idx, &H, T[be].canary_damage - 1, &T[be], NULL);
            if (T[be].rejected_wrote) report(c->name, be, "rejected-call-wrote-to-the-output-buffer", idx, &H, T[be].rejected_wrote - 1, &T[be], NULL);
        }
        VH_COUNT("backend_pairs_compared", nbe - 1);
        for (be = 1; be < nbe; ++be) {
            int what, opi = ctrans_diff(H.ops, H.n, &T[be], &T[0], 0, &what);
            if (opi >= 0) {
                const char *cls = what == 0 ? "return-value-differs-from-generic" :
                    (midstream_change_before(&H, opi) ? "rekey-midbatch" :
                     (since_init_no_counter(&H, opi) ? "output-differs-from-generic-default-counter-after-init" : "output-differs-from-generic"));
                report(c->name, be, cls, idx, &H, opi, &T[be], &T[0]);
            }
        }
    } else { /* twin */
        static int map[H_MAXOPS];
        chist_strip_invalid(&H, &H2, map);
        VH_COUNT("twin_pairs", 1);
        for (be = 0; be < nbe; ++be) {
            int i, j;
            vh_set_cap(be);
            snprintf(pfx, sizeof(pfx), "%s:%s:%s", prop, c->name, vh_backend_names[be]);
            chist_run(&H, &T[0], pfx);
            chist_run(&H2, &T2, pfx);
            if (T[0].canary_damage) report(c->name, be, "canary-damaged", idx, &H, T[0].canary_damage - 1, &T[0], NULL);
            if (T[0].rejected_wrote) report(c->name, be, "rejected-call-wrote-to-the-output-buffer", idx, &H, T[0].rejected_wrote - 1, &T[0], NULL);
            for (i = 0; i < H.n; ++i) {
                const cop *o = &H.ops[i];
                char cls[128];
                if (o->expect == 0) {
                    VH_COUNT("invalid_calls_checked", 1);
                    if (T[0].r[i].ret != 0) { snprintf(cls, sizeof(cls), "%s:%s:returned-nonzero", c_kind_names[o->kind], o->cls ? o->cls : ""); report(c->name, be, cls, idx, &H, i, &T[0], NULL); }
                } else if (o->expect == 1) {
                    VH_COUNT("valid_calls_checked", 1);
                    if (T[0].r[i].ret != 1) { snprintf(cls, sizeof(cls), "%s:%s:valid-call-did-not-return-1", c_kind_names[o->kind], o->cls ? o->cls : ""); report(c->name, be, cls, idx, &H, i, &T[0], NULL); }
                }
            }
            /* transcripts of the surviving ops must be identical */
            for (j = 0; j < H2.n; ++j) {
                i = map[j];
                if (T[0].r[i].ret != T2.r[j].ret || T[0].r[i].olen != T2.r[j].olen ||
                    memcmp(T[0].out + T[0].r[i].ooff, T2.out + T2.r[j].ooff, T2.r[j].olen)) {
                    /* blame the nearest preceding invalid call */
                    int k = i; char cls[160];
                    while (k >= 0 && H.ops[k].expect != 0) --k;
                    snprintf(cls, sizeof(cls), "%s:%s:later-results-changed", k >= 0 ? c_kind_names[H.ops[k].kind] : "?", k >= 0 && H.ops[k].cls ? H.ops[k].cls : "?");
                    report(c->name, be, cls, idx, &H, i, &T[0], NULL);
                    break;
                }
            }
        }
    }
}

int main(int argc, char **argv)
{
    int i;
    vh_init(argc, argv);
    prop = vh_getarg("prop", "C05");
    if (ref_selftest()) { vh_note("reference model self-test failed"); printf("{\"type\":\"harness_error\",\"detail\":\"ref selftest\"}\n"); return 2; }
    vh_guard_init();
    vh_install_fault_handler();
    for (i = 0; i < CIPH_N; ++i) {
        maxbe[i] = vh_max_backend(&vh_ciphers[i]);
        if (maxbe[i] < 0) { printf("{\"type\":\"inconclusive\",\"reason\":\"cannot identify back end of %s\"}\n", vh_ciphers[i].name); return 2; }
        { char n[64]; snprintf(n, sizeof(n), "max_backend_%s", vh_ciphers[i].name); *vh_counter_ref(n) = (uint64_t)maxbe[i]; }
    }
    if (!strcmp(vh_arg_mode, "marathon")) vh_run(marathon_case); else vh_run(one_case);
    vh_finish();
    return 0;
}
