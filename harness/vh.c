#define _GNU_SOURCE
#include "vh.h"
#include <stdlib.h>
#include <string.h>
#include <stdarg.h>
#include <unistd.h>
#include <signal.h>
#include <errno.h>
#include <time.h>
#include <sys/mman.h>
#include <sys/wait.h>

#if defined(__has_feature)
#if __has_feature(address_sanitizer)
#define VH_ASAN 1
#endif
#endif
#if defined(__SANITIZE_ADDRESS__)
#define VH_ASAN 1
#endif
#ifdef VH_ASAN
void __asan_poison_memory_region(void const volatile *addr, size_t size);
void __asan_unpoison_memory_region(void const volatile *addr, size_t size);
#define VH_POISON(a, n) __asan_poison_memory_region((a), (n))
#define VH_UNPOISON(a, n) __asan_unpoison_memory_region((a), (n))
#elif defined(VH_VALGRIND)
#include <valgrind/memcheck.h>
#define VH_POISON(a, n) (void)VALGRIND_MAKE_MEM_NOACCESS((a), (n))
#define VH_UNPOISON(a, n) (void)VALGRIND_MAKE_MEM_DEFINED((a), (n))
#else
#define VH_POISON(a, n) ((void)0)
#define VH_UNPOISON(a, n) ((void)0)
#endif

/* ---------------- definedness monitor ---------------- */
#if defined(__has_feature)
#if __has_feature(memory_sanitizer)
#define VH_MSAN 1
#endif
#endif
#ifdef VH_MSAN
long __msan_test_shadow(const volatile void *x, size_t size);
void __msan_poison(const volatile void *a, size_t size);
void __msan_unpoison(const volatile void *a, size_t size);
int vh_def_available(void) { return 1; }
long vh_first_undef(const void *p, size_t n) { return n ? (long)__msan_test_shadow(p, n) : -1; }
void vh_make_undef(void *p, size_t n) { __msan_poison(p, n); }
void vh_make_def(void *p, size_t n) { __msan_unpoison(p, n); }
#elif defined(VH_VALGRIND)
int vh_def_available(void) { return RUNNING_ON_VALGRIND ? 1 : 0; }
long vh_first_undef(const void *p, size_t n)
{
    unsigned char vb[256]; size_t off = 0;
    if (!RUNNING_ON_VALGRIND) return -1;
    while (off < n) {
        size_t k = n - off < sizeof(vb) ? n - off : sizeof(vb), i;
        if (VALGRIND_GET_VBITS((const char *)p + off, vb, k) != 1) return -1;
        for (i = 0; i < k; ++i) if (vb[i]) return (long)(off + i);
        off += k;
    }
    return -1;
}
void vh_make_undef(void *p, size_t n) { (void)VALGRIND_MAKE_MEM_UNDEFINED(p, n); }
void vh_make_def(void *p, size_t n) { (void)VALGRIND_MAKE_MEM_DEFINED(p, n); }
#else
int vh_def_available(void) { return 0; }
long vh_first_undef(const void *p, size_t n) { (void)p; (void)n; return -1; }
void vh_make_undef(void *p, size_t n) { (void)p; (void)n; }
void vh_make_def(void *p, size_t n) { (void)p; (void)n; }
#endif
int vh_check_defined(const char *what, const void *p, size_t n)
{
    long off = vh_first_undef(p, n);
    char key[400], d[200];
    if (off < 0) return 0;
    snprintf(key, sizeof(key), "%s:undefined-%s", vh_sh->cur_key, what);
    snprintf(d, sizeof(d), "{\"what\":\"%s\",\"size\":%lu,\"first_undefined_offset\":%ld}", what, (unsigned long)n, off);
    vh_violation(key, d, NULL);
    return 1;
}

/* ---------------- PRNG ---------------- */
static uint64_t splitmix(uint64_t *x)
{
    uint64_t z = (*x += 0x9E3779B97F4A7C15ULL);
    z = (z ^ (z >> 30)) * 0xBF58476D1CE4E5B9ULL;
    z = (z ^ (z >> 27)) * 0x94D049BB133111EBULL;
    return z ^ (z >> 31);
}
void vh_rng_seed(vh_rng *r, uint64_t seed, uint64_t stream, uint64_t idx)
{
    uint64_t x = seed * 0xD1342543DE82EF95ULL + stream * 0x9E3779B97F4A7C15ULL + idx * 0xC2B2AE3D27D4EB4FULL + 0x1234567;
    int i;
    for (i = 0; i < 4; ++i) r->s[i] = splitmix(&x);
}
static inline uint64_t rotl(uint64_t x, int k) { return (x << k) | (x >> (64 - k)); }
uint64_t vh_rand(vh_rng *r)
{
    uint64_t *s = r->s, result = rotl(s[1] * 5, 7) * 9, t = s[1] << 17;
    s[2] ^= s[0]; s[3] ^= s[1]; s[1] ^= s[2]; s[0] ^= s[3]; s[2] ^= t; s[3] = rotl(s[3], 45);
    return result;
}
uint32_t vh_below(vh_rng *r, uint32_t n) { return (uint32_t)((vh_rand(r) >> 11) % n); }
void vh_rand_bytes(vh_rng *r, void *buf, size_t n)
{
    uint8_t *p = buf;
    while (n >= 8) { uint64_t v = vh_rand(r); memcpy(p, &v, 8); p += 8; n -= 8; }
    if (n) { uint64_t v = vh_rand(r); memcpy(p, &v, n); }
}
void vh_fill_interesting(vh_rng *r, uint8_t *buf, size_t n)
{
    uint32_t k = vh_below(r, 16);
    size_t i;
    if (!n) return;
    switch (k) {
    case 0: memset(buf, 0, n); break;
    case 1: memset(buf, 0xFF, n); break;
    case 2: memset(buf, 0, n); buf[vh_below(r, (uint32_t)n)] = (uint8_t)(1u << vh_below(r, 8)); break;
    case 3: memset(buf, 0xFF, n); buf[vh_below(r, (uint32_t)n)] ^= (uint8_t)(1u << vh_below(r, 8)); break;
    case 4: memset(buf, (int)vh_below(r, 256), n); break;
    case 5: for (i = 0; i < n; ++i) buf[i] = (uint8_t)(vh_below(r, 4) ? 0xFF : vh_below(r, 256)); break;
    default: vh_rand_bytes(r, buf, n); break;
    }
}

/* big-endian counter of n bytes whose low word (1, 2, 4, 8 bytes or the whole counter) lies just below the point where the
   top bit of that word flips (0x7F..FF -> 0x80..00) or where the word wraps, with the bytes above it random, all-zero or
   all-ones: a few increments (or decrements) later the word crosses its "sign" boundary, which byte-wise carry chains of
   0xFF never do */
void vh_fill_msb_boundary(vh_rng *r, uint8_t *buf, size_t n)
{
    static const unsigned widths[5] = {1, 2, 4, 8, 16};
    size_t w = widths[vh_below(r, 5)], i; unsigned delta = vh_below(r, 13), kind = vh_below(r, 8), hi = vh_below(r, 3);
    if (!n) return;
    if (w > n) w = n;
    if (hi == 0) vh_rand_bytes(r, buf, n); else memset(buf, hi == 1 ? 0 : 0xFF, n);
    memset(buf + n - w, kind ? 0xFF : 0x00, w);
    buf[n - w] = kind == 0 ? 0x80 : kind == 1 ? 0xFF : 0x7F;      /* 80 00..00 / FF FF..FF / 7F FF..FF (most often) */
    for (i = 0; i < delta; ++i) {                                   /* subtract delta inside the word */
        size_t j = n;
        while (j > n - w) { --j; if (buf[j]-- != 0) break; }
    }
}

/* dst = a value "related" to src: every 1-, 2- or 4-byte segment of dst is a copy of some segment of src (so halves are
   repeated, swapped or kept), optionally with one bit flipped: exposes comparisons that look at the wrong half / wrong width */
void vh_related(vh_rng *r, uint8_t *dst, const uint8_t *src, size_t n)
{
    static const unsigned gs[3] = {1, 2, 4};
    size_t g = gs[vh_below(r, 3)], i, nseg;
    if (!n) return;
    if (g > n) g = 1;
    nseg = n / g;
    memcpy(dst, src, n);
    for (i = 0; i < nseg; ++i) memcpy(dst + i * g, src + (size_t)vh_below(r, (uint32_t)nseg) * g, g);
    if (!vh_below(r, 3)) dst[vh_below(r, (uint32_t)n)] ^= (uint8_t)(1u << vh_below(r, 8));
}

uint32_t vh_wrap_len(vh_rng *r, uint32_t lo, uint32_t hi)
{
    uint32_t s = 1 + vh_below(r, 5), j = 1 + vh_below(r, (1u << s) - 1), k = lo + vh_below(r, hi - lo + 1);
    return (j << (32 - s)) + k;
}

uint64_t vh_hash(const void *p, size_t n, uint64_t h)
{
    const uint8_t *b = p;
    while (n--) { h ^= *b++; h *= 1099511628211ULL; }
    return h;
}

/* ---------------- shared state ---------------- */
vh_shared *vh_sh;
uint64_t vh_seed = 1, vh_cases = 100, vh_first = 0, vh_shard = 0, vh_nshards = 1;
int vh_cap = 2;
const char *vh_variant = "prod";
const char *vh_distinct_file = NULL;
const char *vh_arg_mode = "";
static int vh_nofork = 0;
int vh_fork_each_case = 0;      /* every case runs in its own freshly forked child: no library state survives from case to case */
static int vh_case_timeout = 120;
static int g_argc; static char **g_argv;
static uint64_t *dset; static uint64_t dset_cap = 1u << 21;
static char fault_info_buf[1]; /* placeholder */

const char *vh_getarg(const char *name, const char *dflt)
{
    int i;
    for (i = 1; i + 1 < g_argc; ++i)
        if (g_argv[i][0] == '-' && g_argv[i][1] == '-' && !strcmp(g_argv[i] + 2, name)) return g_argv[i + 1];
    return dflt;
}
static int hasflag(const char *name)
{
    int i;
    for (i = 1; i < g_argc; ++i)
        if (g_argv[i][0] == '-' && g_argv[i][1] == '-' && !strcmp(g_argv[i] + 2, name)) return 1;
    return 0;
}

void vh_init(int argc, char **argv)
{
    const char *s;
    g_argc = argc; g_argv = argv;
    (void)fault_info_buf;
    vh_seed = strtoull(vh_getarg("seed", "1"), NULL, 0);
    vh_cases = strtoull(vh_getarg("cases", "100"), NULL, 0);
    vh_first = strtoull(vh_getarg("first", "0"), NULL, 0);
    s = vh_getarg("shard", "0/1");
    vh_shard = strtoull(s, NULL, 10);
    if (strchr(s, '/')) vh_nshards = strtoull(strchr(s, '/') + 1, NULL, 10);
    if (!vh_nshards) vh_nshards = 1;
    vh_cap = atoi(vh_getarg("cap", "2"));
    vh_variant = vh_getarg("variant", "prod");
    vh_distinct_file = vh_getarg("distinct-file", NULL);
    vh_arg_mode = vh_getarg("mode", "");
    vh_nofork = hasflag("nofork");
    vh_case_timeout = atoi(vh_getarg("case-timeout", "120"));
    vh_sh = mmap(NULL, sizeof(vh_shared), PROT_READ | PROT_WRITE, MAP_SHARED | MAP_ANONYMOUS, -1, 0);
    dset = mmap(NULL, dset_cap * 8, PROT_READ | PROT_WRITE, MAP_SHARED | MAP_ANONYMOUS | MAP_NORESERVE, -1, 0);
    if (vh_sh == MAP_FAILED || dset == MAP_FAILED) { fprintf(stderr, "vh_init: mmap failed\n"); exit(2); }
    memset(vh_sh, 0, sizeof(*vh_sh));
    vh_sh->distinct_cap = dset_cap;
    setvbuf(stdout, NULL, _IOLBF, 1 << 16);
}

uint64_t *vh_counter_ref(const char *name_in)
{
    int i;
    char name[104];
    strncpy(name, name_in, sizeof(name) - 1); name[sizeof(name) - 1] = 0;
    for (i = 0; i < VH_MAX_COUNTERS; ++i) {
        if (!vh_sh->counters[i].name[0]) {
            strncpy(vh_sh->counters[i].name, name, sizeof(vh_sh->counters[i].name) - 1);
            return &vh_sh->counters[i].value;
        }
        if (!strcmp(vh_sh->counters[i].name, name)) return &vh_sh->counters[i].value;
    }
    fprintf(stderr, "vh: too many counters\n"); exit(2);
}

int vh_distinct(uint64_t h)
{
    uint64_t mask = dset_cap - 1, i;
    if (!h) h = 1;
    i = (h * 0x9E3779B97F4A7C15ULL) >> 20 & mask;
    for (;;) {
        if (dset[i] == h) return 0;
        if (!dset[i]) {
            if (vh_sh->distinct_n >= dset_cap * 3 / 4) { VH_MAXC("distinct_saturated", 1); return 0; }
            dset[i] = h; vh_sh->distinct_n++;
            return 1;
        }
        i = (i + 1) & mask;
    }
}

/* ---------------- string builder ---------------- */
void sb_init(vh_sb *s) { s->cap = 512; s->n = 0; s->p = malloc(s->cap); s->p[0] = 0; }
void sb_free(vh_sb *s) { free(s->p); s->p = NULL; }
static void sb_room(vh_sb *s, size_t need)
{
    if (s->n + need + 1 > s->cap) { while (s->n + need + 1 > s->cap) s->cap *= 2; s->p = realloc(s->p, s->cap); }
}
void sb_printf(vh_sb *s, const char *fmt, ...)
{
    va_list ap; int k;
    va_start(ap, fmt); k = vsnprintf(NULL, 0, fmt, ap); va_end(ap);
    if (k < 0) return;
    sb_room(s, (size_t)k);
    va_start(ap, fmt); vsnprintf(s->p + s->n, (size_t)k + 1, fmt, ap); va_end(ap);
    s->n += (size_t)k;
}
void sb_hexn(vh_sb *s, const void *p, size_t n, size_t maxn)
{
    static const char hx[] = "0123456789abcdef";
    const uint8_t *b = p; size_t i, m = n < maxn ? n : maxn;
    sb_room(s, 2 * m + 8);
    s->p[s->n++] = '"';
    if (b) for (i = 0; i < m; ++i) { s->p[s->n++] = hx[b[i] >> 4]; s->p[s->n++] = hx[b[i] & 15]; }
    else { memcpy(s->p + s->n, "NULL", 4); s->n += 4; }
    if (b && m < n) { s->p[s->n++] = '.'; s->p[s->n++] = '.'; }
    s->p[s->n++] = '"'; s->p[s->n] = 0;
}
void sb_hex(vh_sb *s, const void *p, size_t n) { sb_hexn(s, p, n, (size_t)-1); }

/* ---------------- output ---------------- */
static void emit_line(const char *s)
{
    size_t n = strlen(s);
    char *b = malloc(n + 2);
    memcpy(b, s, n); b[n] = '\n';
    fflush(stdout);
    { size_t off = 0; while (off < n + 1) { ssize_t w = write(1, b + off, n + 1 - off); if (w <= 0) { if (errno == EINTR) continue; break; } off += (size_t)w; } }
    free(b);
}
static void json_escape(vh_sb *s, const char *t)
{
    for (; *t; ++t) {
        unsigned char c = (unsigned char)*t;
        if (c == '"' || c == '\\') sb_printf(s, "\\%c", c);
        else if (c < 0x20) sb_printf(s, "\\u%04x", c);
        else sb_printf(s, "%c", c);
    }
}
void vh_violation(const char *key, const char *detail_json, const char *replay_json)
{
    vh_sb s;
    int i;
    vh_sh->violations++;
    /* print at most 3 witnesses per key; every occurrence is counted per key */
    for (i = 0; i < 128; ++i) {
        if (!vh_sh->vkeys[i].key[0]) { strncpy(vh_sh->vkeys[i].key, key, sizeof(vh_sh->vkeys[i].key) - 1); break; }
        if (!strcmp(vh_sh->vkeys[i].key, key)) break;
    }
    if (i < 128) { if (++vh_sh->vkeys[i].n > 3) return; }
    else if (vh_sh->violations > 400) return;
    sb_init(&s);
    sb_printf(&s, "{\"type\":\"violation\",\"key\":\""); json_escape(&s, key);
    sb_printf(&s, "\",\"variant\":\""); json_escape(&s, vh_variant);
    sb_printf(&s, "\",\"cap\":%d,\"seed\":%llu,\"case\":%llu,\"detail\":%s,\"replay\":%s}", vh_cap,
              (unsigned long long)vh_seed, (unsigned long long)vh_sh->cur_case,
              detail_json ? detail_json : "null", replay_json ? replay_json : (vh_sh->cur_desc[0] ? vh_sh->cur_desc : "null"));
    emit_line(s.p); sb_free(&s);
}
int vh_want_sample(void) { return vh_sh->samples_emitted < 3 && (vh_shard == 0 || vh_shard == 3 % vh_nshards); }
void vh_sample(const char *json)
{
    vh_sb s;
    if (!vh_want_sample()) return;
    vh_sh->samples_emitted++;
    sb_init(&s); sb_printf(&s, "{\"type\":\"sample\",\"variant\":\"%s\",\"cap\":%d,\"case\":%s}", vh_variant, vh_cap, json);
    emit_line(s.p); sb_free(&s);
}
void vh_note(const char *fmt, ...)
{
    char buf[1024]; va_list ap; vh_sb s;
    va_start(ap, fmt); vsnprintf(buf, sizeof(buf), fmt, ap); va_end(ap);
    sb_init(&s); sb_printf(&s, "{\"type\":\"note\",\"text\":\""); json_escape(&s, buf); sb_printf(&s, "\"}");
    emit_line(s.p); sb_free(&s);
}

void vh_case_begin(uint64_t idx, const char *crash_key, const char *desc_json)
{
    vh_sh->cur_case = idx;
    vh_sh->in_call = 0;
    strncpy(vh_sh->cur_key, crash_key ? crash_key : "", sizeof(vh_sh->cur_key) - 1);
    vh_sh->cur_key[sizeof(vh_sh->cur_key) - 1] = 0;
    if (desc_json && strlen(desc_json) < VH_DESC_MAX) strcpy(vh_sh->cur_desc, desc_json);
    else if (desc_json) { snprintf(vh_sh->cur_desc, VH_DESC_MAX, "{\"truncated\":true,\"case\":%llu}", (unsigned long long)idx); }
    else vh_sh->cur_desc[0] = 0;
}
void vh_set_crash_key(const char *k)
{
    strncpy(vh_sh->cur_key, k, sizeof(vh_sh->cur_key) - 1);
    vh_sh->cur_key[sizeof(vh_sh->cur_key) - 1] = 0;
}
void vh_call_begin(const char *name)
{
    strncpy(vh_sh->call_name, name, sizeof(vh_sh->call_name) - 1);
    vh_sh->call_name[sizeof(vh_sh->call_name) - 1] = 0;
    vh_sh->in_call = 1;
}
void vh_call_end(void) { vh_sh->in_call = 0; }

static char g_fault_info[256];
static char *g_fault_shared; /* in shared mapping */

void (*vh_child_exit_hook)(void);

int vh_run(vh_case_fn fn)
{
    uint64_t next = vh_first, end = vh_first + vh_cases;
    int crashes = 0;
    if (!g_fault_shared) {
        g_fault_shared = mmap(NULL, 4096, PROT_READ | PROT_WRITE, MAP_SHARED | MAP_ANONYMOUS, -1, 0);
    }
    if (vh_nofork) {
        uint64_t i;
        for (i = next; i < end; ++i) if (i % vh_nshards == vh_shard) { fn(i); vh_sh->done_upto = i + 1; }
        if (vh_child_exit_hook) vh_child_exit_hook();
        return 0;
    }
    while (next < end) {
        pid_t pid;
        int st = 0;
        fflush(stdout);
        vh_sh->done_upto = next;
        vh_sh->cur_case = next;
        pid = fork();
        if (pid < 0) { fprintf(stderr, "vh_run: fork failed\n"); exit(2); }
        if (pid == 0) {
            uint64_t i;
            for (i = next; i < end; ++i) if (i % vh_nshards == vh_shard) { fn(i); vh_sh->done_upto = i + 1; if (vh_fork_each_case) break; }
            if (!vh_fork_each_case || i >= end) vh_sh->done_upto = end;
            if (vh_child_exit_hook) vh_child_exit_hook();
            fflush(stdout);
#ifdef VH_COVERAGE
            { extern void __gcov_dump(void); __gcov_dump(); }
#endif
            _exit(0);
        }
        {   /* watchdog on progress */
            uint64_t last = vh_sh->done_upto; time_t t0 = time(NULL);
            int hung = 0;
            for (;;) {
                pid_t w = waitpid(pid, &st, WNOHANG);
                if (w == pid) break;
                if (w < 0 && errno != EINTR) { st = 0; break; }
                if (vh_sh->done_upto != last) { last = vh_sh->done_upto; t0 = time(NULL); }
                if (time(NULL) - t0 > vh_case_timeout) { kill(pid, SIGKILL); waitpid(pid, &st, 0); hung = 1; break; }
                { struct timespec ts = {0, 2000000}; nanosleep(&ts, NULL); }
            }
            if (hung) {
                vh_sb s; sb_init(&s);
                sb_printf(&s, "{\"type\":\"inconclusive\",\"reason\":\"case %llu made no progress for %d s (killed)\",\"key\":\"",
                          (unsigned long long)vh_sh->cur_case, vh_case_timeout);
                json_escape(&s, vh_sh->cur_key); sb_printf(&s, ":hang\"}");
                emit_line(s.p); sb_free(&s);
                next = vh_sh->cur_case + 1;
                continue;
            }
        }
        if (WIFEXITED(st) && WEXITSTATUS(st) == 0) { if (vh_fork_each_case && vh_sh->done_upto < end) { next = vh_sh->done_upto; continue; } break; }
        /* abnormal end in case cur_case */
        ++crashes;
        {
            vh_sb d; char key[400];
            const char *what = "exit";
            int code = 0;
            sb_init(&d);
            if (WIFSIGNALED(st)) { what = "signal"; code = WTERMSIG(st); }
            else if (WIFEXITED(st)) code = WEXITSTATUS(st);
            sb_printf(&d, "{\"%s\":%d,\"in_library_call\":%s,\"call\":\"", what, code, vh_sh->in_call ? "true" : "false");
            json_escape(&d, vh_sh->call_name);
            sb_printf(&d, "\",\"fault\":\""); json_escape(&d, g_fault_shared ? g_fault_shared : ""); sb_printf(&d, "\"}");
            if (vh_sh->in_call) {
                snprintf(key, sizeof(key), "%s:crash", vh_sh->cur_key);
                vh_violation(key, d.p, NULL);
            } else {
                vh_sb s; sb_init(&s);
                sb_printf(&s, "{\"type\":\"harness_error\",\"case\":%llu,\"detail\":%s}", (unsigned long long)vh_sh->cur_case, d.p);
                emit_line(s.p); sb_free(&s);
            }
            sb_free(&d);
            if (g_fault_shared) g_fault_shared[0] = 0;
        }
        next = vh_sh->cur_case + 1;
        if (crashes >= 300) { vh_note("too many crashes (%d), stopping early", crashes); break; }
    }
    return crashes;
}

void vh_finish(void)
{
    vh_sb s; int i, first = 1;
    sb_init(&s);
    sb_printf(&s, "{\"type\":\"summary\",\"variant\":\"%s\",\"cap\":%d,\"seed\":%llu,\"shard\":%llu,\"violations\":%llu,\"distinct\":%llu,\"counters\":{",
              vh_variant, vh_cap, (unsigned long long)vh_seed, (unsigned long long)vh_shard,
              (unsigned long long)vh_sh->violations, (unsigned long long)vh_sh->distinct_n);
    for (i = 0; i < VH_MAX_COUNTERS && vh_sh->counters[i].name[0]; ++i) {
        sb_printf(&s, "%s\"%s\":%llu", first ? "" : ",", vh_sh->counters[i].name, (unsigned long long)vh_sh->counters[i].value);
        first = 0;
    }
    sb_printf(&s, "},\"violation_keys\":{");
    for (i = 0; i < 128 && vh_sh->vkeys[i].key[0]; ++i) {
        sb_printf(&s, "%s\"", i ? "," : ""); json_escape(&s, vh_sh->vkeys[i].key);
        sb_printf(&s, "\":%llu", (unsigned long long)vh_sh->vkeys[i].n);
    }
    sb_printf(&s, "}}");
    emit_line(s.p); sb_free(&s);
    if (vh_distinct_file) {
        FILE *f = fopen(vh_distinct_file, "wb");
        if (f) {
            uint64_t k;
            for (k = 0; k < dset_cap; ++k) if (dset[k]) fwrite(&dset[k], 8, 1, f);
            fclose(f);
        }
    }
}

/* ---------------- guard buffers ---------------- */
#define PG 4096
#define CANW 256
typedef struct { uint8_t *base; uint8_t *data; size_t lo, hi; int used, ro; } garena;
static garena ga[VH_G_ARENAS];
static inline uint8_t canary(size_t i) { return (uint8_t)(0xC3 ^ (i * 29)); }

void vh_guard_init(void)
{
    int a;
    for (a = 0; a < VH_G_ARENAS; ++a) {
        uint8_t *m = mmap(NULL, VH_G_DATA + 2 * PG, PROT_READ | PROT_WRITE, MAP_PRIVATE | MAP_ANONYMOUS, -1, 0);
        if (m == MAP_FAILED) { fprintf(stderr, "vh_guard_init: mmap failed\n"); exit(2); }
        mprotect(m, PG, PROT_NONE);
        mprotect(m + PG + VH_G_DATA, PG, PROT_NONE);
        ga[a].base = m; ga[a].data = m + PG; ga[a].used = 0;
    }
}
/* make the data pages of an arena read-only (the buffer placed in it is an input the library may only read) or writable again */
void vh_gprotect(int a, int readonly)
{
    garena *g = &ga[a];
    if (!g->base || g->ro == !!readonly) return;
    mprotect(g->data, VH_G_DATA, readonly ? PROT_READ : (PROT_READ | PROT_WRITE));
    g->ro = !!readonly;
}
static void gset(int a, size_t lo, size_t hi)
{
    garena *g = &ga[a];
    size_t i, s, e;
    vh_gprotect(a, 0);
    if (g->used) vh_gunpoison(a);
    g->lo = lo; g->hi = hi; g->used = 1;
    s = lo > CANW ? lo - CANW : 0; e = hi + CANW < VH_G_DATA ? hi + CANW : VH_G_DATA;
    for (i = s; i < lo; ++i) g->data[i] = canary(i);
    for (i = hi; i < e; ++i) g->data[i] = canary(i);
    if (lo > s) VH_POISON(g->data + s, lo - s);
    if (e > hi) VH_POISON(g->data + hi, e - hi);
}
void vh_gunpoison(int a)
{
    garena *g = &ga[a];
    size_t s, e;
    if (!g->used) return;
    s = g->lo > CANW ? g->lo - CANW : 0; e = g->hi + CANW < VH_G_DATA ? g->hi + CANW : VH_G_DATA;
    VH_UNPOISON(g->data + s, e - s);
    (void)s; (void)e;
}
uint8_t *vh_gback(int a, size_t n, int mis)
{
    garena *g = &ga[a];
    size_t lo;
    if (n > VH_G_DATA - 128) { fprintf(stderr, "vh_gback: too large\n"); exit(2); }
    lo = VH_G_DATA - n;
    if (mis >= 0) {
        uintptr_t p = (uintptr_t)(g->data + lo);
        size_t down = (size_t)((p - (uintptr_t)mis) & 63);
        lo -= down;
    }
    gset(a, lo, lo + n);
    return g->data + lo;
}
uint8_t *vh_gfront(int a, size_t n, int mis)
{
    garena *g = &ga[a];
    size_t lo = 0;
    if (n > VH_G_DATA - 128) { fprintf(stderr, "vh_gfront: too large\n"); exit(2); }
    if (mis >= 0) {
        uintptr_t p = (uintptr_t)g->data;
        lo = (size_t)(((uintptr_t)mis - p) & 63);
    }
    gset(a, lo, lo + n);
    return g->data + lo;
}
int vh_gcheck(int a, long *where)
{
    garena *g = &ga[a];
    size_t i, s, e;
    if (!g->used) return 0;
    vh_gprotect(a, 0);
    vh_gunpoison(a);
    s = g->lo > CANW ? g->lo - CANW : 0; e = g->hi + CANW < VH_G_DATA ? g->hi + CANW : VH_G_DATA;
    {
        int bad = 0;
        for (i = s; i < g->lo; ++i) if (g->data[i] != canary(i)) { if (!bad && where) *where = (long)i - (long)g->lo; bad = 1; g->data[i] = canary(i); }
        for (i = g->hi; i < e; ++i) if (g->data[i] != canary(i)) { if (!bad && where) *where = (long)i - (long)g->lo; bad = 1; g->data[i] = canary(i); }
        return bad;      /* damage is repaired so that it is reported once, by the call that caused it */
    }
}
int vh_gwhich(const void *addr, long *rel, int *is_guard)
{
    int a;
    const uint8_t *p = addr;
    for (a = 0; a < VH_G_ARENAS; ++a) {
        if (ga[a].base && p >= ga[a].base && p < ga[a].base + VH_G_DATA + 2 * PG) {
            if (rel) *rel = (long)(p - (ga[a].data + ga[a].lo));
            if (is_guard) *is_guard = (p < ga[a].data || p >= ga[a].data + VH_G_DATA);
            return a;
        }
    }
    return -1;
}

int (*vh_fault_describe_hook)(const void *addr, char *buf, size_t n);
static int ro_describe(const void *addr, char *buf, size_t n);

static void fault_handler(int sig, siginfo_t *si, void *uc)
{
    long rel = 0; int isg = 0, a;
    (void)uc;
    a = vh_gwhich(si->si_addr, &rel, &isg);
    if (a >= 0)
        snprintf(g_fault_info, sizeof(g_fault_info), "sig %d addr in guard arena %d, offset %ld relative to buffer start (buffer length %lu)%s",
                 sig, a, rel, (unsigned long)(ga[a].hi - ga[a].lo), isg ? " [PROT_NONE guard page]" : "");
    else if ((vh_fault_describe_hook && vh_fault_describe_hook(si->si_addr, g_fault_info + 32, sizeof(g_fault_info) - 32)) || ro_describe(si->si_addr, g_fault_info + 32, sizeof(g_fault_info) - 32)) {
        int k = snprintf(g_fault_info, 32, "sig %d: ", sig);
        memmove(g_fault_info + k, g_fault_info + 32, strlen(g_fault_info + 32) + 1);
    } else
        snprintf(g_fault_info, sizeof(g_fault_info), "sig %d addr %p (not in a guard arena)", sig, si->si_addr);
    if (g_fault_shared) { strncpy(g_fault_shared, g_fault_info, 255); g_fault_shared[255] = 0; }
    signal(sig, SIG_DFL);
    raise(sig);
}
void vh_install_fault_handler(void)
{
    struct sigaction sa;
    static uint8_t altstack[65536];
    stack_t ss;
    ss.ss_sp = altstack; ss.ss_size = sizeof(altstack); ss.ss_flags = 0;
    sigaltstack(&ss, NULL);
    memset(&sa, 0, sizeof(sa));
    sa.sa_sigaction = fault_handler;
    sa.sa_flags = SA_SIGINFO | SA_ONSTACK | SA_NODEFER;
    sigaction(SIGSEGV, &sa, NULL);
    sigaction(SIGBUS, &sa, NULL);
    if (!g_fault_shared)
        g_fault_shared = mmap(NULL, 4096, PROT_READ | PROT_WRITE, MAP_SHARED | MAP_ANONYMOUS, -1, 0);
}

#define RO_SLOTS 4
static uint8_t *ro_page[RO_SLOTS]; static size_t ro_off[RO_SLOTS];
static size_t ro_align = 64;
/* like vh_ro_copy, but the copy is only aligned as the object's type requires (align = _Alignof(type)): successive copies
   walk through every residue of that alignment modulo 64, e.g. 4, 8, 12 ... for a 4-byte aligned schedule */
const void *vh_ro_copy_al(int slot, const void *obj, size_t n, size_t align)
{
    const void *p;
    ro_align = align ? align : 64;
    p = vh_ro_copy(slot, obj, n);
    ro_align = 64;
    return p;
}
const void *vh_ro_copy(int slot, const void *obj, size_t n)
{
    uint8_t *p;
    if (n > 3 * PG) { fprintf(stderr, "vh_ro_copy: object too large\n"); exit(2); }
    if (!ro_page[slot]) {
        ro_page[slot] = mmap(NULL, 4 * PG, PROT_READ | PROT_WRITE, MAP_PRIVATE | MAP_ANONYMOUS, -1, 0);
        if (ro_page[slot] == MAP_FAILED) { fprintf(stderr, "vh_ro_copy: mmap failed\n"); exit(2); }
    } else mprotect(ro_page[slot], 4 * PG, PROT_READ | PROT_WRITE);
    ro_off[slot] = (ro_off[slot] + 64 + (ro_align < 64 ? ro_align : 0)) % 1024;            /* a different address each time, aligned to ro_align */
    ro_off[slot] -= ro_off[slot] % ro_align;
    p = ro_page[slot] + ro_off[slot];
    memcpy(p, obj, n);
    mprotect(ro_page[slot], 4 * PG, PROT_READ);
    return p;
}
void vh_ro_release(int slot) { if (ro_page[slot]) mprotect(ro_page[slot], 4 * PG, PROT_READ | PROT_WRITE); }
static int ro_describe(const void *addr, char *buf, size_t n)
{
    int s;
    for (s = 0; s < RO_SLOTS; ++s)
        if (ro_page[s] && (const uint8_t *)addr >= ro_page[s] && (const uint8_t *)addr < ro_page[s] + 4 * PG) {
            snprintf(buf, n, "WRITE to the read-only relocated copy of a key schedule / object passed by pointer-to-const (slot %d, offset %ld)", s, (long)((const uint8_t *)addr - ro_page[s] - (long)ro_off[s]));
            return 1;
        }
    return 0;
}

__attribute__((noinline)) void vh_paint_stack(int v, size_t n)
{
    volatile uint8_t buf[32768];
    size_t i;
    if (n > sizeof(buf)) n = sizeof(buf);
    for (i = 0; i < n; ++i) buf[sizeof(buf) - 1 - i] = (uint8_t)(v + (v < 0 ? (int)(i * 131) : 0));
    __asm__ volatile("" ::: "memory");
}
