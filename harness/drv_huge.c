/* Single calls of more than 4 GiB (size_t arithmetic, 32-bit counters of bytes/blocks/batches).
 * A 16 MiB memfd is mapped 257 times back to back, so a 4 GiB + 4 KiB buffer costs 16 MiB of
 * memory.  Input (and the Mantis tweak array) are periodic with that period.
 *   parallel ECB: every alias of an output offset receives the same value, so afterwards the 16 MiB
 *                 output window must equal the single-block functions applied to the input window;
 *   CTR         : the last alias that covers an output offset wins; its keystream block index is
 *                 known, so the window is compared with input xor E(counter + that index).
 * usage: drv_huge --mode par|ctr --cipher 0..2 --cap N [--dec 0|1] */
#define _GNU_SOURCE
#include "hist.h"
#include <string.h>
#include <stdlib.h>
#include <unistd.h>
#include <sys/mman.h>

#define WIN ((size_t)16 << 20)
#define NMAP 257
#define LEN ((((size_t)1) << 32) + 4096)

static uint8_t *alias_map(int *fdp, int fill)
{
    int fd = memfd_create("vhuge", 0), i; uint8_t *base, *w;
    if (fd < 0 || ftruncate(fd, (off_t)WIN) != 0) return NULL;
    base = mmap(NULL, WIN * NMAP, PROT_NONE, MAP_PRIVATE | MAP_ANONYMOUS | MAP_NORESERVE, -1, 0);
    if (base == MAP_FAILED) return NULL;
    for (i = 0; i < NMAP; ++i)
        if (mmap(base + WIN * (size_t)i, WIN, PROT_READ | PROT_WRITE, MAP_SHARED | MAP_FIXED, fd, 0) == MAP_FAILED) return NULL;
    w = base; memset(w, fill, WIN);
    *fdp = fd;
    return base;
}

int main(int argc, char **argv)
{
    const vh_cipher *c; int cap, dec, fd1, fd2, fd3, ret, ctr_mode; uint8_t *in, *out, *tw, *exp_, key[48], cb[16], c0[16]; size_t i, bad = 0, first = 0;
    vh_rng r; unsigned klen, rounds = 7; vh_handle h; char key_[200], d[300];
    vh_init(argc, argv);
    c = &vh_ciphers[atoi(vh_getarg("cipher", "0")) % CIPH_N]; cap = atoi(vh_getarg("cap", "2")); dec = atoi(vh_getarg("dec", "0"));
    ctr_mode = !strcmp(vh_arg_mode, "ctr");
    vh_rng_seed(&r, vh_seed, 0x4A, (uint64_t)c->id * 8 + (uint64_t)cap * 2 + (uint64_t)dec);
    in = alias_map(&fd1, 0); out = alias_map(&fd2, 0xEE); tw = alias_map(&fd3, 0); exp_ = malloc(WIN);
    if (!in || !out || !tw || !exp_) { printf("{\"type\":\"inconclusive\",\"reason\":\"cannot map 4 GiB of aliased address space\"}\n"); return 2; }
    vh_rand_bytes(&r, in, 65536); for (i = 65536; i < WIN; ++i) in[i] = (uint8_t)(in[i - 65536] + 1);
    vh_rand_bytes(&r, tw, 65536); for (i = 65536; i < WIN; ++i) tw[i] = (uint8_t)(tw[i - 65536] + 7);
    vh_rand_bytes(&r, key, 48); vh_rand_bytes(&r, c0, 16);
    klen = c->id == CIPH_MANTIS ? 16 : c->bb * (1 + vh_below(&r, 3));
    memset(&h, 0, sizeof(h)); vh_set_cap(cap);
    snprintf(d, sizeof(d), "{\"driver\":\"drv_huge\",\"mode\":\"%s\",\"cipher\":\"%s\",\"cap\":%d,\"decrypt\":%d,\"bytes\":%llu}", vh_arg_mode, c->name, cap, dec, (unsigned long long)LEN);
    vh_case_begin(0, "huge", d);
    if (ctr_mode) {
        c->ctr_init(&h); c->ctr_set_key(&h, key, klen, rounds); c->ctr_set_counter(&h, c0, c->bb);
        snprintf(key_, sizeof(key_), "C05:%s:%s:single-call-over-4GiB", c->name, vh_backend_names[c->ctr_backend(&h)]);
        ret = c->ctr_encrypt(out, in, LEN, &h);
        c->ctr_cleanup(&h);
        for (i = 0; i < WIN; i += c->bb) {
            /* last alias covering window offset i: alias 256 for i < 4096, else alias 255 */
            uint64_t off = (i < 4096 ? (uint64_t)256 : (uint64_t)255) * WIN + i, blk = off / c->bb; uint8_t ks[16]; unsigned k;
            memcpy(cb, c0, c->bb); ref_ctr_add(cb, c->bb, blk);
            if (c->id == CIPH_S128) { static Skinny128Key_t k128; static int s; if (!s) { skinny128_set_key(&k128, key, klen); s = 1; } skinny128_ecb_encrypt(ks, cb, &k128); }
            else if (c->id == CIPH_S64) { static Skinny64Key_t k64; static int s; if (!s) { skinny64_set_key(&k64, key, klen); s = 1; } skinny64_ecb_encrypt(ks, cb, &k64); }
            else { static MantisKey_t km; static int s; if (!s) { mantis_set_key(&km, key, 16, rounds, MANTIS_ENCRYPT); s = 1; } mantis_ecb_crypt(ks, cb, &km); }
            for (k = 0; k < c->bb; ++k) exp_[i + k] = in[i + k] ^ ks[k];
        }
    } else {
        c->par_init(&h); c->par_set_key(&h, key, klen, rounds, dec ? MANTIS_DECRYPT : MANTIS_ENCRYPT);
        snprintf(key_, sizeof(key_), "C07:%s-parallel:%s:single-call-over-4GiB", c->name, vh_backend_names[c->par_backend(&h)]);
        ret = ((dec && c->par_decrypt) ? c->par_decrypt : c->par_encrypt)(out, in, tw, LEN, &h);
        c->par_cleanup(&h);
        for (i = 0; i < WIN; i += c->bb) {
            if (c->id == CIPH_S128) { static Skinny128Key_t k128; static int s; if (!s) { skinny128_set_key(&k128, key, klen); s = 1; } (dec ? skinny128_ecb_decrypt : skinny128_ecb_encrypt)(exp_ + i, in + i, &k128); }
            else if (c->id == CIPH_S64) { static Skinny64Key_t k64; static int s; if (!s) { skinny64_set_key(&k64, key, klen); s = 1; } (dec ? skinny64_ecb_decrypt : skinny64_ecb_encrypt)(exp_ + i, in + i, &k64); }
            else { static MantisKey_t km; static int s; if (!s) { mantis_set_key(&km, key, 16, rounds, dec ? MANTIS_DECRYPT : MANTIS_ENCRYPT); s = 1; } mantis_ecb_crypt_tweaked(exp_ + i, in + i, tw + i, &km); }
        }
    }
    for (i = 0; i < WIN; ++i) if (out[i] != exp_[i]) { if (!bad) first = i; ++bad; }
    VH_COUNT("calls_over_4GiB", 1); VH_COUNT("bytes_processed", LEN); VH_COUNT("window_bytes_compared", WIN);
    vh_distinct(vh_hash(d, strlen(d), VH_HASH_INIT)); vh_distinct(vh_hash(key, 48, VH_HASH_INIT));
    if (ret != 1 || bad) {
        char dd[400];
        snprintf(dd, sizeof(dd), "{\"cipher\":\"%s\",\"mode\":\"%s\",\"decrypt\":%d,\"bytes\":%llu,\"ret\":%d,\"window_bytes_wrong\":%lu,\"first_wrong_window_offset\":%lu}", c->name, vh_arg_mode, dec, (unsigned long long)LEN, ret, (unsigned long)bad, (unsigned long)first);
        vh_violation(key_, dd, d);
    }
    { vh_sh->samples_emitted = 0; vh_sample(d); }
    vh_finish();
    return 0;
}
