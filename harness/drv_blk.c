/* Driver for single-block / key-schedule level properties.
 *   --mode c01 : SKINNY single-block encrypt+decrypt vs reference, six variants
 *   --mode c02 : MANTIS-5..8 vs reference through all entry points
 *   --mode c03 : D(E(x))=x, E(D(x))=x single-block and parallel; Mantis mode-switch histories vs model
 *   --mode c04 : tweakable SKINNY key-schedule histories vs from-scratch reference
 */
#include "hist.h"
#include <string.h>
#include <stdlib.h>

static const char *prop = "C01";
static int maxbe[CIPH_N];

static void viol(const char *key, uint64_t idx, const char *fmt_detail_json)
{
    vh_sb rp; sb_init(&rp);
    sb_printf(&rp, "{\"driver\":\"drv_blk\",\"prop\":\"%s\",\"mode\":\"%s\",\"seed\":%llu,\"case\":%llu,\"variant\":\"%s\",\"case_detail\":%s}",
              prop, vh_arg_mode, (unsigned long long)vh_seed, (unsigned long long)idx, vh_variant, fmt_detail_json);
    vh_violation(key, fmt_detail_json, rp.p);
    sb_free(&rp);
}

static void begin(uint64_t idx, const char *pfx)
{
    char d[256];
    snprintf(d, sizeof(d), "{\"driver\":\"drv_blk\",\"prop\":\"%s\",\"mode\":\"%s\",\"seed\":%llu,\"case\":%llu,\"variant\":\"%s\"}", prop, vh_arg_mode,
             (unsigned long long)vh_seed, (unsigned long long)idx, vh_variant);
    vh_case_begin(idx, pfx, d);
}


/* ---------------------------------------------------------------- foreign-object preconditioning
   Before the object under test is keyed, ANOTHER object is keyed and used with a key RELATED to the one about to be used
   (identical except for the last two bytes / one byte / one row; the same bytes through the other API flavour, length or
   Mantis mode; the Mantis key whose decryption schedule has the same cells).  A correct library has no state outside the
   caller's objects, so this can never matter; a process-wide memo of the last expansion whose match test forgets one field
   (a row, the mode, the tweaked flag, the round count) is only reachable this way: random keys never repeat.
   The key under test may be rewritten (before the model computes the expectation): fam 0/1 = skinny128/64, 2 = mantis. */
static uint64_t be64(const uint8_t *p) { uint64_t v = 0; int i; for (i = 0; i < 8; ++i) v = (v << 8) | p[i]; return v; }
static void put64(uint8_t *p, uint64_t v) { int i; for (i = 7; i >= 0; --i) { p[i] = (uint8_t)v; v >>= 8; } }
static void foreign_use(vh_rng *r, int fam, uint8_t *key, unsigned klen, unsigned rounds, int dec)
{
    uint8_t f[48], blk[16] = {1, 2, 3}, out[16], big[256], bigo[256], tw[256]; unsigned bb = fam == 0 ? 16 : 8, what = (unsigned)vh_below(r, 8), i; int cap;
    memcpy(f, key, klen); memset(big, 0x3C, sizeof(big)); memset(tw, 0x5A, sizeof(tw));
    switch (what) {
    case 0: break;                                                          /* the same key */
    case 1: f[klen - 1] ^= (uint8_t)(1 + vh_below(r, 255)); f[klen - 2] ^= (uint8_t)vh_below(r, 256); break;
    case 2: f[vh_below(r, klen)] ^= (uint8_t)(1 + vh_below(r, 255)); break;
    case 3: { unsigned row = (unsigned)vh_below(r, klen / 8); vh_rand_bytes(r, f + 8 * row, 8); } break;
    case 4: if (fam != 2 && klen > bb) memset(key, 0, bb); break;            /* TK1 of the key under test is zero, like the implicit tweak of a tweaked set-up */
    case 5: if (fam != 2 && klen > bb) memset(key + klen - bb, 0, bb); break; /* last row zero, like a shorter key zero-padded */
    case 6: if (fam == 2) { uint64_t k0 = be64(f), k1 = be64(f + 8); put64(key, ((k0 >> 1) | (k0 << 63)) ^ (k0 >> 63)); put64(key + 8, k1 ^ 0x243f6a8885a308d3ULL); } break;   /* test key = cells of f's opposite-mode schedule */
    default: vh_related(r, f, key, klen); break;
    }
    VH_COUNT("foreign_object_preconditionings", 1);
    if (fam == 2) {
        MantisKey_t m; vh_handle h; unsigned fr = vh_below(r, 2) ? rounds : 8; int fmode = (what == 6) ? (dec ? MANTIS_ENCRYPT : MANTIS_DECRYPT) : (vh_below(r, 2) ? MANTIS_ENCRYPT : MANTIS_DECRYPT);
        mantis_set_key(&m, f, 16, fr, fmode); mantis_ecb_crypt(out, blk, &m);
        for (cap = 0; cap < 3; ++cap) { memset(&h, 0, sizeof(h)); vh_set_cap(cap); if (vh_ciphers[CIPH_MANTIS].par_init(&h)) { vh_ciphers[CIPH_MANTIS].par_set_key(&h, f, 16, fr, fmode); vh_ciphers[CIPH_MANTIS].par_encrypt(bigo, big, tw, 192, &h); vh_ciphers[CIPH_MANTIS].par_cleanup(&h); } }
        vh_set_cap(2);
        return;
    }
    { vh_handle h; const vh_cipher *c = &vh_ciphers[fam == 0 ? CIPH_S128 : CIPH_S64];
      for (cap = 0; cap < 3; ++cap) { memset(&h, 0, sizeof(h)); vh_set_cap(cap); if (c->par_init(&h)) { c->par_set_key(&h, f, klen, 0, 0); c->par_encrypt(bigo, big, NULL, 256, &h); c->par_cleanup(&h); } }
      vh_set_cap(2); }
    for (i = 0; i < 2; ++i) {
        unsigned flavour = (unsigned)vh_below(r, 4), fl = klen;
        if (i == 1 && what == 4) flavour = 2;                                 /* the last foreign set-up is the tweaked one with its implicit zero tweak */
        if (flavour == 1 && klen > bb) fl = klen - bb; else if (flavour == 1) fl = klen + bb;      /* neighbouring primary length, same prefix */
        if (fam == 0) {
            Skinny128Key_t k; Skinny128TweakedKey_t t;
            if (flavour >= 2 && klen > bb && klen - bb >= 16) { skinny128_set_tweaked_key(&t, (what == 4) ? f + bb : f, (what == 4) ? klen - bb : (klen - bb)); if (flavour == 3 && what != 4) skinny128_set_tweak(&t, f, 16); skinny128_ecb_encrypt(out, blk, &t.ks); }
            else { if (fl > 48) fl = 48; skinny128_set_key(&k, f, fl); skinny128_ecb_encrypt(out, blk, &k); }
        } else {
            Skinny64Key_t k; Skinny64TweakedKey_t t;
            if (flavour >= 2 && klen > bb) { skinny64_set_tweaked_key(&t, (what == 4) ? f + bb : f, klen - bb); if (flavour == 3 && what != 4) skinny64_set_tweak(&t, f, 8); skinny64_ecb_encrypt(out, blk, &t.ks); }
            else { if (fl > 24) fl = 24; skinny64_set_key(&k, f, fl); skinny64_ecb_encrypt(out, blk, &k); }
        }
    }
}

/* ---------------------------------------------------------------- C01 */
static const struct { const char *name; unsigned bb, klen; } SKV[6] = {
    {"skinny64-64", 8, 8}, {"skinny64-128", 8, 16}, {"skinny64-192", 8, 24},
    {"skinny128-128", 16, 16}, {"skinny128-256", 16, 32}, {"skinny128-384", 16, 48}};

static int lib_relocate;
static void lib_skinny(unsigned bb, const uint8_t *key, unsigned klen, int dec, const uint8_t *in, uint8_t *out, int *ret)
{
    /* relocate != 0: the schedule is copied to a fresh address in a PROT_READ page and the original is scrambled
       before it is used (a key schedule is plain data passed by pointer-to-const: it must be copyable and never written) */
    if (bb == 16) {
        Skinny128Key_t ks; const Skinny128Key_t *use = &ks;
        vh_call_begin("skinny128_set_key"); *ret = skinny128_set_key(&ks, key, klen); vh_call_end();
        if (lib_relocate) { use = vh_ro_copy_al(0, &ks, sizeof(ks), _Alignof(__typeof__(ks))); memset(&ks, 0xA5, sizeof(ks)); }
        vh_call_begin(dec ? "skinny128_ecb_decrypt" : "skinny128_ecb_encrypt");
        if (dec) skinny128_ecb_decrypt(out, in, use); else skinny128_ecb_encrypt(out, in, use);
        vh_call_end();
    } else {
        Skinny64Key_t ks; const Skinny64Key_t *use = &ks;
        vh_call_begin("skinny64_set_key"); *ret = skinny64_set_key(&ks, key, klen); vh_call_end();
        if (lib_relocate) { use = vh_ro_copy_al(0, &ks, sizeof(ks), _Alignof(__typeof__(ks))); memset(&ks, 0xA5, sizeof(ks)); }
        vh_call_begin(dec ? "skinny64_ecb_decrypt" : "skinny64_ecb_encrypt");
        if (dec) skinny64_ecb_decrypt(out, in, use); else skinny64_ecb_encrypt(out, in, use);
        vh_call_end();
    }
    if (lib_relocate) { vh_ro_release(0); VH_COUNT("calls_on_relocated_read_only_schedule", 1); }
}

#define C01_STRUCT 8192
static void c01_case(uint64_t idx)
{
    unsigned v = (unsigned)(idx % 6), dec = (unsigned)((idx / 6) & 1);
    uint64_t k = idx / 12;
    unsigned bb = SKV[v].bb, klen = SKV[v].klen;
    uint8_t key[48], in[16], out[16], exp_[16];
    vh_rng r; int ret = 0; char pfx[96]; const char *kind;
    vh_rng_seed(&r, vh_seed, 0x01, idx);
    snprintf(pfx, sizeof(pfx), "C01:%s:%s", SKV[v].name, dec ? "decrypt" : "encrypt");
    begin(idx, pfx);
    memset(key, 0, sizeof(key)); memset(in, 0, sizeof(in));
    if (k < C01_STRUCT) {
        /* every value in every cell, under a zero key (k<4096) or a random key */
        /* the structured block is walked in a scrambled order (odd multiplier modulo 2^13 = bijection) so that short runs
           mix zero-key and random-key cases instead of seeing only the zero key */
        uint64_t ks = (k * 2731u) & (C01_STRUCT - 1);
        unsigned cell = (unsigned)(ks % 16), val = (unsigned)((ks / 16) % 256);
        kind = "cell-value";
        if (ks >= 4096) vh_rand_bytes(&r, key, klen);
        vh_rand_bytes(&r, in, bb);
        if (ks & 1) memset(in, 0, bb);
        if (bb == 16) in[cell] = (uint8_t)val;
        else { val &= 15; in[cell / 2] = (uint8_t)((cell & 1) ? ((in[cell / 2] & 0xF0) | val) : ((in[cell / 2] & 0x0F) | (val << 4))); }
    } else if (k < C01_STRUCT + 384) {
        unsigned bit = (unsigned)((k - C01_STRUCT) % (klen * 8));
        kind = "walking-one-key";
        key[bit / 8] = (uint8_t)(1u << (bit % 8));
        vh_rand_bytes(&r, in, bb);
    } else if (k < C01_STRUCT + 384 + 24) {
        unsigned m = (unsigned)(k - C01_STRUCT - 384);
        kind = "special-key";
        switch (m % 6) {
        case 0: memset(key, 0xFF, klen); break;
        case 1: memset(key, 0xFF, klen); key[m % klen] = 0x7F; break;
        case 2: if (klen > bb) vh_rand_bytes(&r, key + bb, bb); break;                 /* TK2 only */
        case 3: if (klen > 2 * bb) vh_rand_bytes(&r, key + 2 * bb, bb); break;          /* TK3 only */
        case 4: vh_rand_bytes(&r, key, bb); break;                                      /* TK1 only */
        default: memset(key, 0xAA, klen); break;
        }
        vh_fill_interesting(&r, in, bb);
    } else {
        kind = "random";
        vh_rand_bytes(&r, key, klen); vh_rand_bytes(&r, in, bb);
        if (k & 1) { kind = "random-after-foreign-object"; foreign_use(&r, bb == 16 ? 0 : 1, key, klen, 0, (int)dec); }
    }
    {
        uint64_t h = vh_hash(key, klen, vh_hash(in, bb, VH_HASH_INIT + v * 2 + dec));
        if (vh_distinct(h)) VH_COUNT("distinct_nontrivial_inputs", 1);
    }
    ref_tally_enabled = 1;
    if (dec) ref_skinny_key_crypt(bb, key, klen, 1, in, exp_); else ref_skinny_key_crypt(bb, key, klen, 0, in, exp_);
    ref_tally_enabled = 0;
    memset(out, 0xEE, sizeof(out));
    lib_relocate = (int)((idx / 12) & 1);
    lib_skinny(bb, key, klen, (int)dec, in, out, &ret);
    VH_COUNT("blocks_compared", 1);
    { static char cn[6][2][48]; if (!cn[v][dec][0]) snprintf(cn[v][dec], 48, "n_%s_%s", SKV[v].name, dec ? "dec" : "enc"); *vh_counter_ref(cn[v][dec]) += 1; }
    if (vh_want_sample() || ret != 1 || memcmp(out, exp_, bb)) {
        vh_sb d; sb_init(&d);
        sb_printf(&d, "{\"variant\":\"%s\",\"direction\":\"%s\",\"kind\":\"%s\",\"key\":", SKV[v].name, dec ? "decrypt" : "encrypt", kind);
        sb_hex(&d, key, klen); sb_printf(&d, ",\"input\":"); sb_hex(&d, in, bb);
        sb_printf(&d, ",\"observed\":"); sb_hex(&d, out, bb); sb_printf(&d, ",\"expected\":"); sb_hex(&d, exp_, bb);
        sb_printf(&d, ",\"set_key_ret\":%d}", ret);
        if (ret != 1 || memcmp(out, exp_, bb)) {
            char key_[160]; snprintf(key_, sizeof(key_), "C01:%s:%s:%s", SKV[v].name, dec ? "decrypt" : "encrypt", ret != 1 ? "set_key-rejected-primary-size" : "differs-from-specification");
            viol(key_, idx, d.p);
        } else vh_sample(d.p);
        sb_free(&d);
    }
}
static void c01_finish(void)
{
    /* S-box input coverage actually evaluated by the model (== by the implementation, outputs agree) */
    unsigned c, v, full8 = 0, full4 = 0;
    for (c = 0; c < 16; ++c) {
        unsigned n8 = 0, n4 = 0;
        for (v = 0; v < 256; ++v) if (ref_tally8[c][v]) ++n8;
        for (v = 0; v < 16; ++v) if (ref_tally4[c][v]) ++n4;
        if (n8 == 256) ++full8;
        if (n4 == 16) ++full4;
    }
    VH_MAXC("max_cells_with_all_256_sbox8_inputs_seen", full8);
    VH_MAXC("max_cells_with_all_16_sbox4_inputs_seen", full4);
}

/* ---------------------------------------------------------------- C02 */
static void c02_case(uint64_t idx)
{
    unsigned rounds = 5 + (unsigned)(idx % 4), dec = (unsigned)((idx / 4) & 1), entry = (unsigned)((idx / 8) % 4);
    uint64_t k = idx / 32;
    uint8_t key[16], tweak[8], in[8], out[8], exp_[8], zero[8] = {0}, stored[8]; int use_stored = 0;
    const uint8_t *eff_tweak = tweak;
    static const char *const entries[4] = {"set_tweak+crypt", "crypt_tweaked", "fresh-schedule(zero-tweak)", "set_tweak(NULL)"};
    MantisKey_t ks; vh_rng r; int ret, ret2 = 1; char pfx[96]; const char *kind;
    vh_rng_seed(&r, vh_seed, 0x02, idx);
    snprintf(pfx, sizeof(pfx), "C02:mantis%u:%s:%s", rounds, dec ? "decrypt" : "encrypt", entries[entry]);
    begin(idx, pfx);
    vh_rand_bytes(&r, key, 16); vh_rand_bytes(&r, tweak, 8); vh_rand_bytes(&r, in, 8);
    if (k < 128) { kind = "walking-one-key"; memset(key, 0, 16); key[k / 8] = (uint8_t)(1u << (k % 8)); }
    else if (k < 192) { unsigned b = (unsigned)(k - 128); kind = "walking-one-tweak"; memset(tweak, 0, 8); tweak[b / 8] = (uint8_t)(1u << (b % 8)); }
    else if (k < 448) { unsigned q = (unsigned)(k - 192), pos = q % 16, val = q / 16; kind = "single-nibble-tweak"; memset(tweak, 0, 8); tweak[pos / 2] = (uint8_t)((pos & 1) ? val : (val << 4)); }
    else if (k < 704) { unsigned q = (unsigned)(k - 448), pos = q % 16, val = q / 16; kind = "cell-value"; if (q & 1) memset(in, 0, 8);
        in[pos / 2] = (uint8_t)((pos & 1) ? ((in[pos / 2] & 0xF0) | val) : ((in[pos / 2] & 0x0F) | (val << 4))); }
    else if (k < 720) { kind = "special-key"; memset(key, (k & 1) ? 0xFF : 0x00, 16); if (k & 2) key[0] ^= 0x80; if (k & 4) key[7] ^= 0x01; if (k & 8) memset(tweak, 0xFF, 8); }
    else kind = "random";
    if (entry == 1 && k >= 720 && (k & 2)) {
        /* the schedule will already store a tweak that is related to the per-call one (halves repeated / swapped / one bit apart,
           in either direction): the per-call tweak must win whatever the stored one looks like */
        use_stored = 1;
        if (k & 4) { vh_rand_bytes(&r, stored, 8); vh_related(&r, tweak, stored, 8); } else vh_related(&r, stored, tweak, 8);
    }
    if (k >= 720 && (k & 8)) { kind = "random-after-foreign-object"; foreign_use(&r, 2, key, 16, rounds, (int)dec); }
    if (entry >= 2) eff_tweak = zero;
    if (vh_distinct(vh_hash(key, 16, vh_hash(eff_tweak, 8, vh_hash(in, 8, VH_HASH_INIT + (idx % 32)))))) VH_COUNT("distinct_nontrivial_inputs", 1);
    if (dec) ref_mantis_decrypt(rounds, key, eff_tweak, in, exp_); else ref_mantis_encrypt(rounds, key, eff_tweak, in, exp_);
    memset(&ks, 0xA5, sizeof(ks)); memset(out, 0xEE, 8);
    vh_call_begin("mantis_set_key"); ret = mantis_set_key(&ks, key, 16, rounds, dec ? MANTIS_DECRYPT : MANTIS_ENCRYPT); vh_call_end();
    {
        /* odd k: block processing runs on a relocated PROT_READ copy of the schedule, the original is scrambled */
        const MantisKey_t *use = &ks; int reloc = (int)(k & 1);
        if (entry == 0) { vh_call_begin("mantis_set_tweak"); ret2 = mantis_set_tweak(&ks, tweak, 8); vh_call_end(); }
        if (use_stored) {
            vh_call_begin("mantis_set_tweak"); ret2 = mantis_set_tweak(&ks, stored, 8); vh_call_end();
            VH_COUNT("crypt_tweaked_calls_with_related_stored_tweak", 1);
        }
        if (entry == 3) { vh_call_begin("mantis_set_tweak"); ret2 = mantis_set_tweak(&ks, tweak, 8); vh_call_end();   /* non-zero first, then NULL */
                          vh_call_begin("mantis_set_tweak(NULL)"); ret2 &= mantis_set_tweak(&ks, NULL, 8); vh_call_end(); }
        if (reloc) { use = vh_ro_copy_al(0, &ks, sizeof(ks), _Alignof(__typeof__(ks))); memset(&ks, 0x5A, sizeof(ks)); VH_COUNT("calls_on_relocated_read_only_schedule", 1); }
        if (entry == 1) { vh_call_begin("mantis_ecb_crypt_tweaked"); mantis_ecb_crypt_tweaked(out, in, tweak, use); vh_call_end(); }
        else { vh_call_begin("mantis_ecb_crypt"); mantis_ecb_crypt(out, in, use); vh_call_end(); }
        if (reloc) vh_ro_release(0);
    }
    VH_COUNT("blocks_compared", 1);
    { static char cn[4][2][4][64]; if (!cn[rounds - 5][dec][entry][0]) snprintf(cn[rounds - 5][dec][entry], 64, "n_mantis%u_%s_%s", rounds, dec ? "dec" : "enc", entries[entry]); *vh_counter_ref(cn[rounds - 5][dec][entry]) += 1; }
    if (vh_want_sample() || ret != 1 || ret2 != 1 || memcmp(out, exp_, 8)) {
        vh_sb d; sb_init(&d);
        sb_printf(&d, "{\"rounds\":%u,\"mode\":\"%s\",\"entry\":\"%s\",\"kind\":\"%s\",\"key\":", rounds, dec ? "decrypt" : "encrypt", entries[entry], kind);
        sb_hex(&d, key, 16); sb_printf(&d, ",\"tweak\":"); sb_hex(&d, tweak, 8); sb_printf(&d, ",\"input\":"); sb_hex(&d, in, 8);
        sb_printf(&d, ",\"observed\":"); sb_hex(&d, out, 8); sb_printf(&d, ",\"expected\":"); sb_hex(&d, exp_, 8);
        sb_printf(&d, ",\"ret\":[%d,%d]}", ret, ret2);
        if (ret != 1 || ret2 != 1 || memcmp(out, exp_, 8)) {
            char key_[200]; snprintf(key_, sizeof(key_), "C02:mantis%u:%s:%s:%s", rounds, dec ? "decrypt" : "encrypt", entries[entry], (ret != 1 || ret2 != 1) ? "valid-call-rejected" : "differs-from-specification");
            viol(key_, idx, d.p);
        } else vh_sample(d.p);
        sb_free(&d);
    }
}

/* ---------------------------------------------------------------- C03 */
static void c03_report(uint64_t idx, const char *key, const char *what, const uint8_t *a, const uint8_t *b, unsigned n, const char *extra)
{
    vh_sb d; sb_init(&d);
    sb_printf(&d, "{\"what\":\"%s\",\"got\":", what); sb_hexn(&d, a, n, 32); sb_printf(&d, ",\"want\":"); sb_hexn(&d, b, n, 32);
    sb_printf(&d, ",\"info\":%s}", extra ? extra : "null");
    viol(key, idx, d.p); sb_free(&d);
}

static void c03_single(uint64_t idx, vh_rng *r)
{
    /* skinny single-block, plain keys of any legal size and tweaked schedules */
    unsigned bb = (idx & 1) ? 16 : 8, tweaked = (unsigned)((idx >> 1) & 1);
    uint8_t key[48], tweak[16], x[16], y[16], z[16]; unsigned klen, tlen;
    char k_[128]; int ret = 1;
    klen = bb * (1 + vh_below(r, tweaked ? 2 : 3));
    vh_fill_interesting(r, key, klen); vh_fill_interesting(r, x, bb);
    tlen = 1 + vh_below(r, bb); vh_rand_bytes(r, tweak, tlen);
    snprintf(k_, sizeof(k_), "C03:skinny%u-single%s", bb * 8, tweaked ? "-tweaked" : "");
    vh_set_crash_key(k_);
    if (vh_distinct(vh_hash(key, klen, vh_hash(x, bb, vh_hash(tweak, tlen, VH_HASH_INIT + tweaked))))) VH_COUNT("distinct_nontrivial_cases", 1);
    if (vh_want_sample()) {
        vh_sb s; sb_init(&s); sb_printf(&s, "{\"single_block_roundtrip\":\"skinny%u%s\",\"key\":", bb * 8, tweaked ? "-tweaked" : ""); sb_hex(&s, key, klen);
        sb_printf(&s, ",\"block\":"); sb_hex(&s, x, bb); sb_printf(&s, "}"); vh_sample(s.p); sb_free(&s);
    }
    if (bb == 16) {
        Skinny128TweakedKey_t tk; Skinny128Key_t pk; const Skinny128Key_t *ks;
        vh_call_begin("skinny128 key setup");
        if (tweaked) { ret = skinny128_set_tweaked_key(&tk, key, klen); if (vh_below(r, 4)) ret &= skinny128_set_tweak(&tk, tweak, tlen); ks = &tk.ks; }
        else { ret = skinny128_set_key(&pk, key, klen); ks = &pk; }
        vh_call_end();
        if (idx & 4) { ks = vh_ro_copy_al(0, ks, sizeof(*ks), _Alignof(__typeof__(*ks))); memset(&tk, 0xA5, sizeof(tk)); memset(&pk, 0xA5, sizeof(pk)); VH_COUNT("calls_on_relocated_read_only_schedule", 1); }
        vh_call_begin("skinny128 ecb");
        skinny128_ecb_encrypt(y, x, ks); skinny128_ecb_decrypt(z, y, ks);
        vh_call_end();
        if (ret != 1 || memcmp(z, x, 16)) { strcat(k_, ":D(E(x))!=x"); c03_report(idx, k_, "decrypt(encrypt(x))", z, x, 16, NULL); return; }
        vh_call_begin("skinny128 ecb");
        skinny128_ecb_decrypt(y, x, ks); skinny128_ecb_encrypt(z, y, ks);
        vh_call_end();
        if (memcmp(z, x, 16)) { strcat(k_, ":E(D(x))!=x"); c03_report(idx, k_, "encrypt(decrypt(x))", z, x, 16, NULL); return; }
    } else {
        Skinny64TweakedKey_t tk; Skinny64Key_t pk; const Skinny64Key_t *ks;
        vh_call_begin("skinny64 key setup");
        if (tweaked) { ret = skinny64_set_tweaked_key(&tk, key, klen); if (vh_below(r, 4)) ret &= skinny64_set_tweak(&tk, tweak, tlen); ks = &tk.ks; }
        else { ret = skinny64_set_key(&pk, key, klen); ks = &pk; }
        vh_call_end();
        if (idx & 4) { ks = vh_ro_copy_al(0, ks, sizeof(*ks), _Alignof(__typeof__(*ks))); memset(&tk, 0xA5, sizeof(tk)); memset(&pk, 0xA5, sizeof(pk)); VH_COUNT("calls_on_relocated_read_only_schedule", 1); }
        vh_call_begin("skinny64 ecb");
        skinny64_ecb_encrypt(y, x, ks); skinny64_ecb_decrypt(z, y, ks);
        vh_call_end();
        if (ret != 1 || memcmp(z, x, 8)) { strcat(k_, ":D(E(x))!=x"); c03_report(idx, k_, "decrypt(encrypt(x))", z, x, 8, NULL); return; }
        vh_call_begin("skinny64 ecb");
        skinny64_ecb_decrypt(y, x, ks); skinny64_ecb_encrypt(z, y, ks);
        vh_call_end();
        if (memcmp(z, x, 8)) { strcat(k_, ":E(D(x))!=x"); c03_report(idx, k_, "encrypt(decrypt(x))", z, x, 8, NULL); return; }
    }
    VH_COUNT("single_block_roundtrips", 2);
    vh_ro_release(0);
}

/* round trips of single calls of 4 .. 16 MiB (block-count arithmetic in the batch loops) */
static void c03_parallel_big(uint64_t idx, vh_rng *r)
{
    const vh_cipher *c = &vh_ciphers[(idx >> 2) % CIPH_N];
    static const uint32_t NB[] = {65537, 262145, 524289, 1048577};
    uint32_t nb = NB[(idx >> 5) % 4]; size_t bytes = (size_t)nb * c->bb;
    int be = (int)((idx >> 7) % (uint64_t)(maxbe[c->id] + 1)), order = (int)vh_below(r, 2), r1, r2, r3;
    uint8_t key[48], *x = malloc(bytes), *y = malloc(bytes), *tw = malloc(bytes); unsigned klen = c->id == CIPH_MANTIS ? 16 : c->bb * (1 + vh_below(r, 3));
    vh_handle h; char k_[160];
    vh_rand_bytes(r, key, 48); vh_rand_bytes(r, x, bytes > 4096 ? 4096 : bytes); if (bytes > 4096) { size_t q; for (q = 4096; q < bytes; ++q) x[q] = (uint8_t)(x[q - 4096] + 1); }
    vh_rand_bytes(r, tw, bytes > 4096 ? 4096 : bytes); if (bytes > 4096) { size_t q; for (q = 4096; q < bytes; ++q) tw[q] = (uint8_t)(tw[q - 4096] + 3); }
    memset(&h, 0, sizeof(h)); vh_set_cap(be);
    snprintf(k_, sizeof(k_), "C03:%s-parallel:%s:large-call", c->name, vh_backend_names[be]); vh_set_crash_key(k_);
    vh_call_begin("parallel large round trip");
    r1 = c->par_init(&h) & c->par_set_key(&h, key, klen, 5 + vh_below(r, 4), order ? MANTIS_DECRYPT : MANTIS_ENCRYPT);
    if (c->id == CIPH_MANTIS) { r2 = c->par_encrypt(y, x, tw, bytes, &h); c->par_swap(&h); r3 = c->par_encrypt(y, y, tw, bytes, &h); }
    else { r2 = (order ? c->par_decrypt : c->par_encrypt)(y, x, NULL, bytes, &h); r3 = (order ? c->par_encrypt : c->par_decrypt)(y, y, NULL, bytes, &h); }
    vh_call_end();
    if (r1 != 1 || r2 != 1 || r3 != 1 || memcmp(x, y, bytes)) {
        size_t q = 0; char info[200]; while (q < bytes && x[q] == y[q]) ++q;
        snprintf(info, sizeof(info), "{\"blocks\":%u,\"first\":\"%s\",\"first_diff_block\":%lu,\"ret\":[%d,%d,%d]}", nb, order ? "decrypt" : "encrypt", (unsigned long)(q / c->bb), r1, r2, r3);
        strcat(k_, order ? ":E(D(x))!=x" : ":D(E(x))!=x");
        c03_report(idx, k_, "large parallel round trip", y + (q < bytes ? q / c->bb * c->bb : 0), x + (q < bytes ? q / c->bb * c->bb : 0), c->bb, info);
    }
    c->par_cleanup(&h);
    VH_COUNT("parallel_large_roundtrips", 1); VH_MAXC("max_blocks_in_one_parallel_call", nb);
    free(x); free(y); free(tw);
}

static uint8_t PB[3][400 * 16];
static void c03_parallel(uint64_t idx, vh_rng *r)
{
    if ((idx >> 2) % 250 == 7) { c03_parallel_big(idx, r); return; }
    const vh_cipher *c = &vh_ciphers[(idx >> 2) % CIPH_N];
    uint64_t k = idx / 12;
    unsigned nb = k < 41 ? (unsigned)k : vh_below(r, 300), bytes = nb * c->bb, klen;
    uint8_t key[48]; int be, inplace = (int)vh_below(r, 2), order = (int)vh_below(r, 2);
    unsigned rounds = 5 + vh_below(r, 4);
    klen = c->id == CIPH_MANTIS ? 16 : c->bb * (1 + vh_below(r, 3));
    vh_rand_bytes(r, key, klen);
    vh_rand_bytes(r, PB[0], bytes);            /* x */
    if (vh_distinct(vh_hash(key, klen, vh_hash(PB[0], bytes, VH_HASH_INIT + nb * 8 + (unsigned)c->id))) && nb) VH_COUNT("distinct_nontrivial_cases", 1);
    for (be = 0; be <= maxbe[c->id]; ++be) {
        vh_handle h; int r1, r2, r3; char k_[160];
        uint8_t *x = vh_gback(1, bytes, -1), *y = vh_gback(2, bytes, -1), *z = vh_gback(3, bytes, -1), *tw = vh_gback(4, bytes, -1);
        memcpy(x, PB[0], bytes); vh_rand_bytes(r, tw, bytes);
        memset(&h, 0, sizeof(h));
        if (vh_below(r, 2)) { uint8_t kc[48]; memcpy(kc, key, klen); foreign_use(r, c->id == CIPH_S128 ? 0 : c->id == CIPH_S64 ? 1 : 2, kc, klen, rounds, order); }   /* another object used with a related key just before (the key under test itself is not rewritten here) */
        vh_set_cap(be);
        snprintf(k_, sizeof(k_), "C03:%s-parallel:%s", c->name, vh_backend_names[be]);
        vh_set_crash_key(k_);
        vh_call_begin("parallel init/set_key");
        r1 = c->par_init(&h); r1 &= c->par_set_key(&h, key, klen, rounds, order ? MANTIS_DECRYPT : MANTIS_ENCRYPT);
        vh_call_end();
        if (c->par_backend(&h) != be) { strcat(k_, ":backend-not-pinned"); c03_report(idx, k_, "backend", x, x, 0, NULL); c->par_cleanup(&h); continue; }
        vh_call_begin("parallel first direction");
        if (c->id == CIPH_MANTIS) r2 = c->par_encrypt(y, x, tw, bytes, &h);
        else r2 = (order ? c->par_decrypt : c->par_encrypt)(y, x, NULL, bytes, &h);
        vh_call_end();
        if (inplace) { memcpy(z, y, bytes); }
        vh_call_begin("parallel second direction");
        if (c->id == CIPH_MANTIS) {
            /* the inverse is reached by switching modes or (1 case in 3) by keying the same object afresh with the same key for the other mode */
            int rekeyed = 0;
            if (nb % 3 == 2) { r1 &= c->par_set_key(&h, key, klen, rounds, order ? MANTIS_ENCRYPT : MANTIS_DECRYPT); VH_COUNT("mantis_parallel_inverse_by_rekeying_same_key_other_mode", 1); rekeyed = 1; }
            else c->par_swap(&h);
            r3 = c->par_encrypt(z, inplace ? z : y, tw, bytes, &h);
            if (rekeyed) c->par_set_key(&h, key, klen, rounds, order ? MANTIS_DECRYPT : MANTIS_ENCRYPT), c->par_swap(&h);      /* leave the object as after one swap */
        }
        else r3 = (order ? c->par_encrypt : c->par_decrypt)(z, inplace ? z : y, NULL, bytes, &h);
        vh_call_end();
        if (r1 != 1 || r2 != 1 || r3 != 1 || memcmp(z, x, bytes)) {
            char info[160]; snprintf(info, sizeof(info), "{\"blocks\":%u,\"first\":\"%s\",\"inplace\":%d,\"ret\":[%d,%d,%d]}", nb, order ? "decrypt" : "encrypt", inplace, r1, r2, r3);
            strcat(k_, order ? ":E(D(x))!=x" : ":D(E(x))!=x");
            c03_report(idx, k_, "parallel round trip", z, x, bytes, info);
        }
        if (c->id == CIPH_MANTIS) {
            /* switching twice restores: crypt again must equal y */
            uint8_t *w = PB[1];
            c->par_swap(&h);
            vh_call_begin("parallel crypt after double swap");
            c->par_encrypt(w, x, tw, bytes, &h);
            vh_call_end();
            if (memcmp(w, y, bytes)) { strcat(k_, ":double-swap-not-identity"); c03_report(idx, k_, "crypt after two swaps", w, y, bytes, NULL); }
        }
        { long wh; int a; for (a = 1; a <= 4; ++a) if (vh_gcheck(a, &wh)) { strcat(k_, ":canary-damaged"); c03_report(idx, k_, "canary", x, x, 0, NULL); break; } }
        c->par_cleanup(&h);
        VH_COUNT("parallel_roundtrips", 1);
        VH_COUNT("parallel_blocks", nb);
        if (nb % 8) VH_COUNT("parallel_counts_with_remainder", 1);
    }
}

/* Mantis mode-switch history against a four-field model (key, tweak, mode, rounds) */
static void c03_mantis(uint64_t idx, vh_rng *r)
{
    MantisKey_t ks, fresh;
    uint8_t key[16], tweak[8] = {0}, in[8], out[8], exp_[8], t2[8];
    unsigned rounds = 5, mode = 1, nops = 1 + vh_below(r, 40), i, keyed = 0;
    vh_sb log; char k_[160];
    sb_init(&log); sb_printf(&log, "[");
    memset(&ks, 0, sizeof(ks));
    vh_set_crash_key("C03:mantis-mode-switch");
    for (i = 0; i < nops; ++i) {
        unsigned op = keyed ? vh_below(r, 10) : 0;
        if (log.n < 3000) sb_printf(&log, "%s", i ? "," : "");
        switch (op) {
        case 0:
            vh_rand_bytes(r, key, 16); rounds = 5 + vh_below(r, 4); mode = vh_below(r, 2); memset(tweak, 0, 8); keyed = 1;
            vh_call_begin("mantis_set_key"); mantis_set_key(&ks, key, 16, rounds, mode ? MANTIS_ENCRYPT : MANTIS_DECRYPT); vh_call_end();
            if (log.n < 3000) { sb_printf(&log, "{\"set_key\":"); sb_hex(&log, key, 16); sb_printf(&log, ",\"rounds\":%u,\"mode\":%u}", rounds, mode); }
            break;
        case 1: case 2:
            vh_fill_interesting(r, tweak, 8);
            vh_call_begin("mantis_set_tweak"); mantis_set_tweak(&ks, tweak, 8); vh_call_end();
            if (log.n < 3000) { sb_printf(&log, "{\"set_tweak\":"); sb_hex(&log, tweak, 8); sb_printf(&log, "}"); }
            break;
        case 3:
            memset(tweak, 0, 8);
            vh_call_begin("mantis_set_tweak(NULL)"); mantis_set_tweak(&ks, NULL, 8); vh_call_end();
            if (log.n < 3000) sb_printf(&log, "{\"set_tweak\":null}");
            break;
        case 4: case 5:
            mode = !mode; VH_COUNT("mode_switches", 1);
            vh_call_begin("mantis_swap_modes"); mantis_swap_modes(&ks); vh_call_end();
            if (log.n < 3000) sb_printf(&log, "\"swap_modes\"");
            /* switching once equals keying afresh in the other mode and re-applying the tweak (behavioural) */
            vh_call_begin("mantis_set_key(fresh)"); mantis_set_key(&fresh, key, 16, rounds, mode ? MANTIS_ENCRYPT : MANTIS_DECRYPT); mantis_set_tweak(&fresh, tweak, 8); vh_call_end();
            {
                unsigned q;
                for (q = 0; q < 3; ++q) {
                    uint8_t o1[8], o2[8];
                    vh_rand_bytes(r, in, 8); vh_rand_bytes(r, t2, 8);
                    vh_call_begin("mantis_ecb_crypt"); mantis_ecb_crypt(o1, in, &ks); mantis_ecb_crypt(o2, in, &fresh); vh_call_end();
                    if (memcmp(o1, o2, 8)) { snprintf(k_, sizeof(k_), "C03:mantis:swap-differs-from-fresh-schedule:crypt"); sb_printf(&log, "]"); c03_report(idx, k_, "swapped vs fresh schedule", o1, o2, 8, log.p); sb_free(&log); return; }
                    vh_call_begin("mantis_ecb_crypt_tweaked"); mantis_ecb_crypt_tweaked(o1, in, t2, &ks); mantis_ecb_crypt_tweaked(o2, in, t2, &fresh); vh_call_end();
                    if (memcmp(o1, o2, 8)) { snprintf(k_, sizeof(k_), "C03:mantis:swap-differs-from-fresh-schedule:crypt_tweaked"); sb_printf(&log, "]"); c03_report(idx, k_, "swapped vs fresh schedule", o1, o2, 8, log.p); sb_free(&log); return; }
                }
            }
            break;
        default: {
            int tweaked_entry = (int)vh_below(r, 2);
            vh_rand_bytes(r, in, 8); vh_rand_bytes(r, t2, 8);
            if (mode) ref_mantis_encrypt(rounds, key, tweaked_entry ? t2 : tweak, in, exp_); else ref_mantis_decrypt(rounds, key, tweaked_entry ? t2 : tweak, in, exp_);
            {
                const MantisKey_t *use = (i & 1) ? vh_ro_copy_al(0, &ks, sizeof(ks), _Alignof(MantisKey_t)) : &ks;
                vh_call_begin(tweaked_entry ? "mantis_ecb_crypt_tweaked" : "mantis_ecb_crypt");
                if (tweaked_entry) mantis_ecb_crypt_tweaked(out, in, t2, use); else mantis_ecb_crypt(out, in, use);
                vh_call_end();
                if (i & 1) vh_ro_release(0);
            }
            VH_COUNT("mantis_history_blocks", 1);
            if (log.n < 3000) { sb_printf(&log, "{\"%s\":", tweaked_entry ? "crypt_tweaked" : "crypt"); sb_hex(&log, in, 8); sb_printf(&log, "}"); }
            if (memcmp(out, exp_, 8)) {
                snprintf(k_, sizeof(k_), "C03:mantis:mode-switch-history:differs-from-model:%s", tweaked_entry ? "crypt_tweaked" : "crypt");
                sb_printf(&log, "]"); c03_report(idx, k_, "history output", out, exp_, 8, log.p); sb_free(&log); return;
            }
            break; }
        }
    }
    sb_printf(&log, "]");
    if (vh_distinct(vh_hash(log.p, log.n, VH_HASH_INIT)) && nops > 1) VH_COUNT("distinct_nontrivial_cases", 1);
    if (vh_sh->samples_emitted < 5 && vh_shard == 3 % vh_nshards) { vh_sb s; sb_init(&s); sb_printf(&s, "{\"mantis_mode_switch_history\":%s}", log.p); vh_sh->samples_emitted = vh_sh->samples_emitted < 2 ? 2 : vh_sh->samples_emitted; vh_sample(s.p); sb_free(&s); }
    VH_COUNT("mantis_histories", 1);
    sb_free(&log);
}

static void c03_case(uint64_t idx)
{
    vh_rng r;
    vh_rng_seed(&r, vh_seed, 0x03, idx);
    begin(idx, "C03");
    switch (idx & 3) {
    case 0: case 1: c03_single(idx >> 2, &r); break;
    case 2: c03_parallel(idx, &r); break;
    default: c03_mantis(idx, &r); break;
    }
}

/* ---------------------------------------------------------------- C04 (one object) */
static void c04_case_single(uint64_t idx)
{
    unsigned bb = (idx & 1) ? 16 : 8;
    vh_rng r; uint8_t key[32], tweak[16], in[16], out[16], exp_[16];
    unsigned klen = bb, tlen = bb, nops, i, keyed = 0, chain = 0; int tweak_null = 1, ret;
    Skinny128TweakedKey_t t128; Skinny64TweakedKey_t t64;
    vh_sb log; char k_[200];
    uint64_t hh = VH_HASH_INIT;
    vh_rng_seed(&r, vh_seed, 0x04, idx);
    snprintf(k_, sizeof(k_), "C04:skinny%u", bb * 8);
    begin(idx, k_);
    memset(&t128, 0xA5, sizeof(t128)); memset(&t64, 0xA5, sizeof(t64));
    nops = 2 + vh_below(&r, 60);
    if ((idx >> 1) % 50 == 0) { nops = 1100; chain = 1; }          /* long chains of tweak changes */
    sb_init(&log); sb_printf(&log, "[");
    memset(tweak, 0, 16);
    for (i = 0; i < nops; ++i) {
        unsigned op = keyed ? (chain ? (i % 10 == 9 ? 7 : 2) : vh_below(&r, 10)) : 0;
        if (log.n < 3000) sb_printf(&log, "%s", i ? "," : "");
        if (op == 0) {
            klen = vh_below(&r, 3) ? bb * (1 + vh_below(&r, 2)) : bb + vh_below(&r, bb + 1);
            vh_fill_interesting(&r, key, klen); memset(tweak, 0, 16); tweak_null = 1; keyed = 1;
            snprintf(k_, sizeof(k_), "C04:skinny%u:set_tweaked_key", bb * 8); vh_set_crash_key(k_);
            vh_call_begin("set_tweaked_key");
            ret = bb == 16 ? skinny128_set_tweaked_key(&t128, key, klen) : skinny64_set_tweaked_key(&t64, key, klen);
            vh_call_end();
            hh = vh_hash(key, klen, hh);
            if (log.n < 3000) { sb_printf(&log, "{\"set_tweaked_key\":"); sb_hex(&log, key, klen); sb_printf(&log, "}"); }
            if (ret != 1) { snprintf(k_, sizeof(k_), "C04:skinny%u:set_tweaked_key:valid-call-rejected", bb * 8); sb_printf(&log, "]"); c03_report(idx, k_, "ret", key, key, 0, log.p); sb_free(&log); return; }
        } else if (op <= 4 && !chain && !vh_below(&r, 6)) {
            /* a rejected call in the middle of the history (bad key length / bad tweak length) must not disturb
               the "key + latest tweak" state: the model simply ignores it */
            int which = (int)vh_below(&r, 2); unsigned badlen; uint8_t junk[40];
            vh_rand_bytes(&r, junk, sizeof(junk));
            snprintf(k_, sizeof(k_), "C04:skinny%u:%s", bb * 8, which ? "rejected-set_tweak" : "rejected-set_tweaked_key"); vh_set_crash_key(k_);
            vh_call_begin("rejected call");
            if (which) { badlen = vh_below(&r, 2) ? 0 : bb + 1 + vh_below(&r, 4); ret = bb == 16 ? skinny128_set_tweak(&t128, junk, badlen) : skinny64_set_tweak(&t64, junk, badlen); }
            else { badlen = vh_below(&r, 2) ? bb - 1 - vh_below(&r, 3) : 2 * bb + 1 + vh_below(&r, bb); ret = bb == 16 ? skinny128_set_tweaked_key(&t128, junk, badlen) : skinny64_set_tweaked_key(&t64, junk, badlen); }
            vh_call_end();
            VH_COUNT("rejected_calls_inside_histories", 1);
            if (log.n < 3000) sb_printf(&log, "{\"%s\":\"rejected\",\"len\":%u}", which ? "set_tweak" : "set_tweaked_key", badlen);
            if (ret != 0) { snprintf(k_, sizeof(k_), "C04:skinny%u:%s:invalid-call-accepted", bb * 8, which ? "set_tweak" : "set_tweaked_key"); sb_printf(&log, "]"); c03_report(idx, k_, "ret", key, key, 0, log.p); sb_free(&log); return; }
        } else if (op <= 4) {
            int null = !vh_below(&r, 8);
            tlen = vh_below(&r, 2) ? bb : 1 + vh_below(&r, bb);
            if (!null && !tweak_null && !vh_below(&r, 6)) { tlen = bb; VH_COUNT("tweak_set_to_its_current_value_again", 1); }    /* the current (zero-padded) tweak once more, full length */
            else if (!null && !tweak_null && !vh_below(&r, 7)) { tlen = 1 + vh_below(&r, bb - 1); memset(tweak + tlen, 0, 16 - tlen); VH_COUNT("tweak_set_to_a_shorter_prefix_of_the_current_one", 1); }   /* the rest becomes zero */
            else if (!null && !tweak_null && !vh_below(&r, 6)) { uint8_t tb[16]; tlen = bb; vh_related(&r, tb, tweak, bb); memcpy(tweak, tb, bb); VH_COUNT("tweak_related_to_the_current_one", 1); }   /* words repeated / swapped / one bit apart */
            else {
            memset(tweak, 0, 16);
            if (!null) { uint8_t tb[16]; vh_fill_interesting(&r, tb, tlen); if (vh_below(&r, 6) == 0 && tlen) memset(tb, 0, tlen); memcpy(tweak, tb, tlen); }
            }
            tweak_null = null;
            snprintf(k_, sizeof(k_), "C04:skinny%u:%s", bb * 8, null ? "set_tweak(null)" : "set_tweak"); vh_set_crash_key(k_);
            {
                /* exact-extent guarded tweak buffer: only tlen bytes exist */
                uint8_t *tp = null ? NULL : vh_gback(0, tlen, -1);
                if (tp) memcpy(tp, tweak, tlen);
                vh_call_begin("set_tweak");
                ret = bb == 16 ? skinny128_set_tweak(&t128, tp, tlen) : skinny64_set_tweak(&t64, tp, tlen);
                vh_call_end();
            }
            VH_COUNT("tweak_changes", 1); if (null) VH_COUNT("null_tweaks", 1); if (tlen < bb) VH_COUNT("short_tweaks", 1);
            hh = vh_hash(tweak, 16, hh);
            if (log.n < 3000) { sb_printf(&log, "{\"set_tweak\":"); if (null) sb_printf(&log, "null"); else sb_hex(&log, tweak, tlen); sb_printf(&log, ",\"len\":%u}", tlen); }
            if (ret != 1) { snprintf(k_, sizeof(k_), "C04:skinny%u:%s:valid-call-rejected", bb * 8, null ? "set_tweak(null)" : "set_tweak"); sb_printf(&log, "]"); c03_report(idx, k_, "ret", key, key, 0, log.p); sb_free(&log); return; }
        } else {
            int dec = (int)vh_below(&r, 2);
            vh_rand_bytes(&r, in, bb);
            ref_skinny_tweaked_crypt(bb, key, klen, tweak, bb, dec, in, exp_);
            snprintf(k_, sizeof(k_), "C04:skinny%u:%s", bb * 8, dec ? "decrypt" : "encrypt"); vh_set_crash_key(k_);
            {
                const Skinny128Key_t *u128 = &t128.ks; const Skinny64Key_t *u64 = &t64.ks; int reloc = !chain && (int)vh_below(&r, 2);
                if (reloc) { if (bb == 16) u128 = vh_ro_copy_al(0, &t128.ks, sizeof(t128.ks), _Alignof(Skinny128Key_t)); else u64 = vh_ro_copy_al(0, &t64.ks, sizeof(t64.ks), _Alignof(Skinny64Key_t)); VH_COUNT("calls_on_relocated_read_only_schedule", 1); }
                vh_call_begin("ecb on tweaked schedule");
                if (bb == 16) { if (dec) skinny128_ecb_decrypt(out, in, u128); else skinny128_ecb_encrypt(out, in, u128); }
                else { if (dec) skinny64_ecb_decrypt(out, in, u64); else skinny64_ecb_encrypt(out, in, u64); }
                vh_call_end();
                if (reloc) vh_ro_release(0);
            }
            VH_COUNT("blocks_compared", 1);
            if (log.n < 3000) { sb_printf(&log, "{\"%s\":", dec ? "decrypt" : "encrypt"); sb_hex(&log, in, bb); sb_printf(&log, "}"); }
            if (memcmp(out, exp_, bb)) {
                snprintf(k_, sizeof(k_), "C04:skinny%u:%s:differs-from-model-with-latest-tweak%s", bb * 8, dec ? "decrypt" : "encrypt", klen % bb ? ":in-between-key-size" : "");
                sb_printf(&log, "]"); c03_report(idx, k_, "block", out, exp_, bb, log.p); sb_free(&log); return;
            }
        }
    }
    (void)tweak_null;
    sb_printf(&log, "]");
    VH_COUNT("histories", 1); VH_MAXC("max_history_ops", nops);
    if (vh_distinct(hh) && nops > 2) VH_COUNT("distinct_nontrivial_histories", 1);
    if (vh_want_sample() && !chain) { vh_sb s; sb_init(&s); sb_printf(&s, "{\"cipher\":\"skinny%u\",\"tweaked_schedule_history\":%s}", bb * 8, log.p); vh_sample(s.p); sb_free(&s); }
    sb_free(&log);
}

/* several tweakable schedules of different key sizes live side by side in one thread and draw their tweaks from one small pool,
   so that the same tweak value recurs on different objects in every order: each result must still depend only on that object's
   key and latest tweak (anything the library remembers between calls - per thread or per process - shows up here) */
static void c04_multi_case(uint64_t idx)
{
    enum { MAXM = 5 };
    vh_rng r; unsigned bb = (idx & 1) ? 16 : 8, M, step, j; char k_[160];
    struct { uint8_t key[32], tweak[16]; unsigned klen; int keyed; Skinny128TweakedKey_t t128; Skinny64TweakedKey_t t64; } ob[MAXM];
    uint8_t pool[4][16], in[16], out[16], exp_[16];
    vh_rng_seed(&r, vh_seed, 0x44, idx);
    begin(idx, "C04");
    M = 3 + vh_below(&r, 3);
    memset(ob, 0, sizeof(ob));
    vh_fill_interesting(&r, pool[0], 16); vh_related(&r, pool[1], pool[0], 16); vh_rand_bytes(&r, pool[2], 16); memset(pool[3], 0, 16); pool[3][bb - 1 - vh_below(&r, 4)] = (uint8_t)(1 + vh_below(&r, 255));
    snprintf(k_, sizeof(k_), "C04:skinny%u:several-objects", bb * 8); vh_set_crash_key(k_);
    for (step = 0; step < 160; ++step) {
        unsigned op = vh_below(&r, 10); int ret = 1;
        j = vh_below(&r, M);
        if (!ob[j].keyed || op == 0) {
            ob[j].klen = vh_below(&r, 3) ? bb * (1 + vh_below(&r, 2)) : bb + vh_below(&r, bb + 1);
            vh_rand_bytes(&r, ob[j].key, 32); memset(ob[j].tweak, 0, 16); ob[j].keyed = 1;
            vh_call_begin("set_tweaked_key"); ret = bb == 16 ? skinny128_set_tweaked_key(&ob[j].t128, ob[j].key, ob[j].klen) : skinny64_set_tweaked_key(&ob[j].t64, ob[j].key, ob[j].klen); vh_call_end();
        } else if (op <= 4) {
            unsigned pi = vh_below(&r, 4), tl = vh_below(&r, 4) ? bb : 1 + vh_below(&r, bb); int null = !vh_below(&r, 10);
            memset(ob[j].tweak, 0, 16); if (!null) memcpy(ob[j].tweak, pool[pi], tl);
            vh_call_begin("set_tweak"); ret = bb == 16 ? skinny128_set_tweak(&ob[j].t128, null ? NULL : pool[pi], tl) : skinny64_set_tweak(&ob[j].t64, null ? NULL : pool[pi], tl); vh_call_end();
            VH_COUNT("tweak_changes", 1);
        } else {
            int dec = (int)vh_below(&r, 2);
            vh_rand_bytes(&r, in, bb);
            ref_skinny_tweaked_crypt(bb, ob[j].key, ob[j].klen, ob[j].tweak, bb, dec, in, exp_);
            vh_call_begin(dec ? "ecb_decrypt" : "ecb_encrypt");
            if (bb == 16) { if (dec) skinny128_ecb_decrypt(out, in, &ob[j].t128.ks); else skinny128_ecb_encrypt(out, in, &ob[j].t128.ks); }
            else { if (dec) skinny64_ecb_decrypt(out, in, &ob[j].t64.ks); else skinny64_ecb_encrypt(out, in, &ob[j].t64.ks); }
            vh_call_end();
            VH_COUNT("blocks_compared", 1);
            if (memcmp(out, exp_, bb)) {
                char info[200]; snprintf(info, sizeof(info), "{\"objects\":%u,\"object\":%u,\"step\":%u,\"key_len\":%u,\"decrypt\":%d}", M, j, step, ob[j].klen, dec);
                snprintf(k_, sizeof(k_), "C04:skinny%u:several-objects:%s:differs-from-model-with-latest-tweak", bb * 8, dec ? "decrypt" : "encrypt");
                c03_report(idx, k_, "block under (key, latest tweak) of this object", out, exp_, bb, info);
                return;
            }
        }
        if (ret != 1) { snprintf(k_, sizeof(k_), "C04:skinny%u:several-objects:valid-call-rejected", bb * 8); c03_report(idx, k_, "ret", in, in, 0, NULL); return; }
    }
    VH_COUNT("histories", 1); VH_COUNT("multi_object_histories", 1);
    if (vh_distinct(vh_hash(pool, sizeof(pool), idx))) VH_COUNT("distinct_nontrivial_histories", 1);
}

/* ---------------------------------------------------------------- C04 */
static void c04_case(uint64_t idx)
{
    if (idx % 5 == 4) { c04_multi_case(idx / 5); return; }
    c04_case_single(idx - idx / 5);
}

/* ---- use before main(): a constructor of the program that runs before default-priority constructors keys every SKINNY variant
   and Mantis and processes one block; main() compares with the reference models (C01/C02: "for every key and every block") ---- */
static struct { uint8_t out[7][16]; int ret[7]; int ran; } g_early;
static const uint8_t EARLY_KEY[48] = {0x60,0x11,0x92,0x23,0xb4,0x35,0xc6,0x47,0xd8,0x59,0xea,0x6b,0xfc,0x7d,0x0e,0x8f,1,2,3,4,5,6,7,8,9,10,11,12,13,14,15,16,
                                      0xa1,0xa2,0xa3,0xa4,0xa5,0xa6,0xa7,0xa8,0xa9,0xaa,0xab,0xac,0xad,0xae,0xaf,0xb0};
static const uint8_t EARLY_IN[16] = {0x3a,0x0c,0x47,0x76,0x7a,0x26,0xa6,0x8d,0xd3,0x82,0xa6,0x95,0xe7,0x02,0x2e,0x25};
__attribute__((constructor(101))) static void early_probe(void)
{
    int v; Skinny128Key_t k128; Skinny64Key_t k64; MantisKey_t km;
    for (v = 0; v < 3; ++v) { g_early.ret[v] = skinny64_set_key(&k64, EARLY_KEY, 8 * (unsigned)(v + 1)); skinny64_ecb_encrypt(g_early.out[v], EARLY_IN, &k64); }
    for (v = 0; v < 3; ++v) { g_early.ret[3 + v] = skinny128_set_key(&k128, EARLY_KEY, 16 * (unsigned)(v + 1)); skinny128_ecb_encrypt(g_early.out[3 + v], EARLY_IN, &k128); }
    g_early.ret[6] = mantis_set_key(&km, EARLY_KEY, 16, 7, MANTIS_ENCRYPT); mantis_ecb_crypt(g_early.out[6], EARLY_IN, &km);
    g_early.ran = 1;
}
static void early_check(const char *prop_)
{
    int v; uint8_t e[16]; static const char *const nm[7] = {"skinny64-64", "skinny64-128", "skinny64-192", "skinny128-128", "skinny128-256", "skinny128-384", "mantis7"};
    for (v = 0; v < 7; ++v) {
        int mine = (v < 6) ? !strcmp(prop_, "C01") : !strcmp(prop_, "C02");
        if (!mine) continue;
        if (v < 3) ref_skinny_key_crypt(8, EARLY_KEY, 8 * (unsigned)(v + 1), 0, EARLY_IN, e);
        else if (v < 6) ref_skinny_key_crypt(16, EARLY_KEY, 16 * (unsigned)(v - 2), 0, EARLY_IN, e);
        else ref_mantis_encrypt(7, EARLY_KEY, NULL, EARLY_IN, e);
        VH_COUNT("variants_used_before_main", 1);
        if (!g_early.ran || g_early.ret[v] != 1 || memcmp(g_early.out[v], e, v < 3 || v == 6 ? 8 : 16)) {
            char key_[200]; snprintf(key_, sizeof(key_), "%s:%s:encrypt:used-from-a-constructor-before-main:differs-from-specification", prop_, nm[v]);
            vh_violation(key_, "{\"when\":\"constructor(101) of the program, i.e. before the library's own start-up code\"}", "{\"driver\":\"drv_blk\"}");
        }
    }
}

int main(int argc, char **argv)
{
    int i;
    vh_init(argc, argv);
    prop = vh_getarg("prop", "C01");
    if (ref_selftest()) { printf("{\"type\":\"harness_error\",\"detail\":\"ref selftest\"}\n"); return 2; }
    vh_guard_init();
    vh_install_fault_handler();
    for (i = 0; i < CIPH_N; ++i) maxbe[i] = vh_max_backend(&vh_ciphers[i]);
    if (!strcmp(vh_arg_mode, "c01")) { if (vh_shard == 0) early_check("C01"); vh_child_exit_hook = c01_finish; vh_run(c01_case); }
    else if (!strcmp(vh_arg_mode, "c02")) { if (vh_shard == 0) early_check("C02"); vh_run(c02_case); }
    else if (!strcmp(vh_arg_mode, "c03")) vh_run(c03_case);
    else if (!strcmp(vh_arg_mode, "c04")) vh_run(c04_case);
    else { fprintf(stderr, "drv_blk: unknown mode\n"); return 2; }
    vh_finish();
    return 0;
}
