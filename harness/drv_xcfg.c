/* Driver for C12 (and the differential half of C11): a deterministic, seeded
 * workload over the operations of C01-C07 whose outputs are (a) compared with
 * the reference models inside the run and (b) condensed into per-chunk digests
 * that the orchestrator compares across builds / processes.
 *   --mode digest [--paint v]   (paint: fill the stack with byte v before every call batch)
 */
#include "hist.h"
#include <string.h>
#include <stdlib.h>

static const char *prop = "C12";
static int maxbe[CIPH_N];
static int paint = -2;          /* -2 none, -1 random-ish, 0..255 constant */
static chist H; static phist P; static ctrans T[3], TM;

#define CHUNK 32
static uint64_t chunk_hash[8]; static uint64_t chunk_first[8]; static int chunk_n[8];
static const char *const secname[5] = {"skinny-single-block", "mantis-single-block", "skinny-tweak-history", "ctr-history", "parallel-history"};

static void flush_chunk(int sec)
{
    if (!chunk_n[sec]) return;
    printf("{\"type\":\"digest\",\"section\":\"%s\",\"first_case\":%llu,\"cases\":%d,\"hash\":\"%016llx\"}\n", secname[sec],
           (unsigned long long)chunk_first[sec], chunk_n[sec], (unsigned long long)chunk_hash[sec]);
    chunk_n[sec] = 0; chunk_hash[sec] = VH_HASH_INIT;
}
static void add_digest(int sec, uint64_t idx, const void *p, size_t n)
{
    if (!chunk_n[sec]) { chunk_first[sec] = idx; chunk_hash[sec] = VH_HASH_INIT; }
    chunk_hash[sec] = vh_hash(p, n, chunk_hash[sec]);
}
static void end_case(int sec)
{
    /* a case is distinct by the digest of everything it produced so far in its chunk position */
    if (vh_distinct(chunk_hash[sec] ^ ((uint64_t)sec << 56))) VH_COUNT("distinct_nontrivial_workload_cases", 1);
    if (++chunk_n[sec] >= CHUNK) flush_chunk(sec);
}

static void viol(const char *key, uint64_t idx, const char *detail)
{
    vh_sb rp; sb_init(&rp);
    sb_printf(&rp, "{\"driver\":\"drv_xcfg\",\"prop\":\"%s\",\"mode\":\"digest\",\"seed\":%llu,\"case\":%llu,\"variant\":\"%s\",\"case_detail\":%s}",
              prop, (unsigned long long)vh_seed, (unsigned long long)idx, vh_variant, detail);
    vh_violation(key, detail, rp.p);
    sb_free(&rp);
}
static void do_paint(void) { if (paint != -2) vh_paint_stack(paint, 24000); }

static void one_case(uint64_t idx)
{
    vh_rng r; int sec = (int)(idx % 5); uint64_t k = idx / 5; char key[200], d[300];
    vh_rng_seed(&r, vh_seed, 0x12, idx);
    snprintf(d, sizeof(d), "{\"driver\":\"drv_xcfg\",\"prop\":\"%s\",\"seed\":%llu,\"case\":%llu,\"variant\":\"%s\"}", prop, (unsigned long long)vh_seed, (unsigned long long)idx, vh_variant);
    snprintf(key, sizeof(key), "%s:%s:%s", prop, vh_variant, secname[sec]);
    vh_case_begin(idx, key, d);
    VH_COUNT("cases", 1);
    if (sec == 0) {
        unsigned bb = (k & 1) ? 16 : 8, klen, dec = (unsigned)((k >> 1) & 1); uint8_t kb[48], in[16], out[16], exp_[16]; int ret;
        klen = (k % 5 == 0) ? bb + vh_below(&r, 2 * bb + 1) : bb * (1 + vh_below(&r, 3));
        vh_fill_interesting(&r, kb, klen); vh_fill_interesting(&r, in, bb);
        do_paint();
        vh_call_begin("skinny set_key+ecb");
        if (bb == 16) { Skinny128Key_t ks; ret = skinny128_set_key(&ks, kb, klen); if (dec) skinny128_ecb_decrypt(out, in, &ks); else skinny128_ecb_encrypt(out, in, &ks); }
        else { Skinny64Key_t ks; ret = skinny64_set_key(&ks, kb, klen); if (dec) skinny64_ecb_decrypt(out, in, &ks); else skinny64_ecb_encrypt(out, in, &ks); }
        vh_call_end();
        ref_skinny_key_crypt(bb, kb, klen, (int)dec, in, exp_);
        add_digest(sec, idx, out, bb); add_digest(sec, idx, &ret, sizeof(ret));
        if (memcmp(out, exp_, bb)) { snprintf(d, sizeof(d), "{\"block\":%u,\"key_len\":%u,\"decrypt\":%u}", bb, klen, dec); snprintf(key, sizeof(key), "%s:%s:%s:differs-from-model", prop, vh_variant, secname[sec]); viol(key, idx, d); }
        VH_COUNT("library_calls", 2);
    } else if (sec == 1) {
        unsigned rounds = 5 + (unsigned)(k % 4), dec = (unsigned)((k >> 2) & 1), entry = (unsigned)((k >> 3) % 3);
        uint8_t kb[16], tw[8], in[8], out[8], exp_[8]; MantisKey_t ks;
        vh_fill_interesting(&r, kb, 16); vh_fill_interesting(&r, tw, 8); vh_rand_bytes(&r, in, 8);
        do_paint();
        vh_call_begin("mantis");
        mantis_set_key(&ks, kb, 16, rounds, dec ? MANTIS_DECRYPT : MANTIS_ENCRYPT);
        if (entry == 0) { mantis_set_tweak(&ks, tw, 8); mantis_ecb_crypt(out, in, &ks); }
        else if (entry == 1) mantis_ecb_crypt_tweaked(out, in, tw, &ks);
        else { mantis_set_tweak(&ks, tw, 8); mantis_swap_modes(&ks); mantis_swap_modes(&ks); mantis_ecb_crypt(out, in, &ks); }
        vh_call_end();
        if (dec) ref_mantis_decrypt(rounds, kb, tw, in, exp_); else ref_mantis_encrypt(rounds, kb, tw, in, exp_);
        add_digest(sec, idx, out, 8);
        if (memcmp(out, exp_, 8)) { snprintf(d, sizeof(d), "{\"rounds\":%u,\"decrypt\":%u,\"entry\":%u}", rounds, dec, entry); snprintf(key, sizeof(key), "%s:%s:%s:differs-from-model", prop, vh_variant, secname[sec]); viol(key, idx, d); }
        VH_COUNT("library_calls", 3);
    } else if (sec == 2) {
        unsigned bb = (k & 1) ? 16 : 8, klen = bb + vh_below(&r, bb + 1), i, n = 2 + vh_below(&r, 12); uint8_t kb[32], tw[16], in[16], out[16], exp_[16];
        Skinny128TweakedKey_t t128; Skinny64TweakedKey_t t64; int bad = 0;
        vh_rand_bytes(&r, kb, klen); memset(tw, 0, 16);
        do_paint();
        vh_call_begin("skinny tweak history");
        if (bb == 16) skinny128_set_tweaked_key(&t128, kb, klen); else skinny64_set_tweaked_key(&t64, kb, klen);
        for (i = 0; i < n; ++i) {
            unsigned tl = 1 + vh_below(&r, bb); int null = !vh_below(&r, 8);
            uint8_t tb[16]; vh_fill_interesting(&r, tb, tl); memset(tw, 0, 16); if (!null) memcpy(tw, tb, tl);
            if (bb == 16) skinny128_set_tweak(&t128, null ? NULL : tb, tl); else skinny64_set_tweak(&t64, null ? NULL : tb, tl);
            vh_rand_bytes(&r, in, bb);
            if (bb == 16) { if (i & 1) skinny128_ecb_decrypt(out, in, &t128.ks); else skinny128_ecb_encrypt(out, in, &t128.ks); }
            else { if (i & 1) skinny64_ecb_decrypt(out, in, &t64.ks); else skinny64_ecb_encrypt(out, in, &t64.ks); }
            ref_skinny_tweaked_crypt(bb, kb, klen, tw, bb, (int)(i & 1), in, exp_);
            add_digest(sec, idx, out, bb);
            if (memcmp(out, exp_, bb)) bad = 1;
            VH_COUNT("library_calls", 2);
        }
        vh_call_end();
        if (bad) { snprintf(d, sizeof(d), "{\"block\":%u,\"key_len\":%u}", bb, klen); snprintf(key, sizeof(key), "%s:%s:%s:differs-from-model", prop, vh_variant, secname[sec]); viol(key, idx, d); }
    } else if (sec == 3) {
        const vh_cipher *c = &vh_ciphers[k % CIPH_N]; int be, what, opi; char pfx[160];
        chist_gen(&H, c, &r, G_MISALIGN | G_INBETWEEN_KEYS | G_REKEY_MID | G_SMALL | G_PLAIN_TWEAK | ((k & 4) ? G_INVALID | G_LIFECYCLE : 0));
        chist_model(&H, &TM);
        if (vh_want_sample()) { vh_sb sj; sb_init(&sj); chist_json(&H, &sj); vh_sample(sj.p); sb_free(&sj); }
        for (be = 0; be <= maxbe[c->id]; ++be) {
            vh_set_cap(be);
            snprintf(pfx, sizeof(pfx), "%s:%s:%s:%s", prop, vh_variant, c->name, vh_backend_names[be]);
            do_paint();
            chist_run(&H, &T[be], pfx);
            VH_COUNT("library_calls", H.n);
            { char cn[64]; snprintf(cn, sizeof(cn), "ctr_runs_%s", vh_backend_names[be]); *vh_counter_ref(cn) += 1; }
            opi = ctrans_diff(H.ops, H.n, &T[be], &TM, 1, &what);
            if (opi >= 0) { snprintf(d, sizeof(d), "{\"cipher\":\"%s\",\"backend\":\"%s\",\"op_index\":%d}", c->name, vh_backend_names[be], opi); snprintf(key, sizeof(key), "%s:%s:%s:%s:differs-from-model", prop, vh_variant, secname[sec], vh_backend_names[be]); viol(key, idx, d); }
            if (be > 0 && (opi = ctrans_diff(H.ops, H.n, &T[be], &T[0], 0, &what)) >= 0) { snprintf(d, sizeof(d), "{\"cipher\":\"%s\",\"backend\":\"%s\",\"op_index\":%d}", c->name, vh_backend_names[be], opi); snprintf(key, sizeof(key), "%s:%s:%s:%s:differs-from-generic", prop, vh_variant, secname[sec], vh_backend_names[be]); viol(key, idx, d); }
        }
        { int i; for (i = 0; i < H.n; ++i) add_digest(sec, idx, &T[0].r[i].ret, sizeof(int)); add_digest(sec, idx, T[0].out, T[0].out_n); }
    } else {
        const vh_cipher *c = &vh_ciphers[k % CIPH_N]; int be, what, opi; char pfx[160];
        phist_gen(&P, c, &r, G_MISALIGN | G_INBETWEEN_KEYS | G_SMALL | ((k & 4) ? G_INVALID | G_LIFECYCLE : 0));
        phist_model(&P, &TM);
        for (be = 0; be <= maxbe[c->id]; ++be) {
            vh_set_cap(be);
            snprintf(pfx, sizeof(pfx), "%s:%s:%s-parallel:%s", prop, vh_variant, c->name, vh_backend_names[be]);
            do_paint();
            phist_run(&P, &T[be], pfx);
            VH_COUNT("library_calls", P.n);
            { char cn[64]; snprintf(cn, sizeof(cn), "parallel_runs_%s", vh_backend_names[be]); *vh_counter_ref(cn) += 1; }
            opi = ctrans_diff(P.ops, P.n, &T[be], &TM, 1, &what);
            if (opi >= 0) { snprintf(d, sizeof(d), "{\"cipher\":\"%s\",\"backend\":\"%s\",\"op_index\":%d}", c->name, vh_backend_names[be], opi); snprintf(key, sizeof(key), "%s:%s:%s:%s:differs-from-model", prop, vh_variant, secname[sec], vh_backend_names[be]); viol(key, idx, d); }
            if (be > 0 && (opi = ctrans_diff(P.ops, P.n, &T[be], &T[0], 0, &what)) >= 0) { snprintf(d, sizeof(d), "{\"cipher\":\"%s\",\"backend\":\"%s\",\"op_index\":%d}", c->name, vh_backend_names[be], opi); snprintf(key, sizeof(key), "%s:%s:%s:%s:differs-from-generic", prop, vh_variant, secname[sec], vh_backend_names[be]); viol(key, idx, d); }
        }
        { int i; for (i = 0; i < P.n; ++i) add_digest(sec, idx, &T[0].r[i].ret, sizeof(int)); add_digest(sec, idx, T[0].out, T[0].out_n); }
    }
    end_case(sec);
}

static void child_done(void) { int s; for (s = 0; s < 5; ++s) flush_chunk(s); fflush(stdout); }

int main(int argc, char **argv)
{
    int i;
    vh_init(argc, argv);
    prop = vh_getarg("prop", "C12");
    paint = atoi(vh_getarg("paint", "-2"));
    if (ref_selftest()) { printf("{\"type\":\"harness_error\",\"detail\":\"ref selftest\"}\n"); return 2; }
    vh_guard_init();
    vh_install_fault_handler();
    for (i = 0; i < CIPH_N; ++i) { maxbe[i] = vh_max_backend(&vh_ciphers[i]); if (maxbe[i] < 0) { printf("{\"type\":\"inconclusive\",\"reason\":\"cannot identify back end\"}\n"); return 2; } }
    { char n[64]; for (i = 0; i < CIPH_N; ++i) { snprintf(n, sizeof(n), "max_backend_%s", vh_ciphers[i].name); *vh_counter_ref(n) = (uint64_t)maxbe[i]; } }
    vh_child_exit_hook = child_done;
    vh_run(one_case);
    vh_finish();
    return 0;
}
