/* Driver for parallel-ECB object histories.
 *   --prop C07 --mode model : every back end vs the library's single-block functions and vs the reference models
 *   --prop C06 --mode xbe   : transcripts equal across back ends
 *   --prop C14 --mode twin  : invalid calls return 0 and change nothing
 */
#include "hist.h"
#include <string.h>
#include <stdlib.h>

static const char *prop = "C07";
static int maxbe[CIPH_N];
static phist H, H2;
static ctrans T[3], TM, TS, T2;

static void replay_json(vh_sb *s, uint64_t idx, const phist *h)
{
    sb_printf(s, "{\"driver\":\"drv_par\",\"prop\":\"%s\",\"mode\":\"%s\",\"seed\":%llu,\"case\":%llu,\"variant\":\"%s\",\"history\":",
              prop, vh_arg_mode, (unsigned long long)vh_seed, (unsigned long long)idx, vh_variant);
    phist_json(h, s);
    sb_printf(s, "}");
}
static void report(const char *cipher, int be, const char *cls, uint64_t idx, const phist *h, int opi, const ctrans *obs, const ctrans *exp_)
{
    char key[256]; vh_sb d, rp;
    snprintf(key, sizeof(key), "%s:%s-parallel:%s:%s", prop, cipher, be >= 0 ? vh_backend_names[be] : "unknown", cls);
    sb_init(&d); sb_init(&rp);
    sb_printf(&d, "{\"op_index\":%d", opi);
    if (opi >= 0 && opi < h->n) {
        sb_printf(&d, ",\"op\":\"%s\",\"class\":\"%s\",\"len\":%u,\"ret_observed\":%d", p_kind_names[h->ops[opi].kind], h->ops[opi].cls ? h->ops[opi].cls : "", h->ops[opi].len, obs ? obs->r[opi].ret : -99);
        if (exp_) sb_printf(&d, ",\"ret_expected\":%d", exp_->r[opi].ret);
        if (obs && exp_ && obs->r[opi].olen && exp_->r[opi].olen) {
            uint32_t k, n = obs->r[opi].olen < exp_->r[opi].olen ? obs->r[opi].olen : exp_->r[opi].olen;
            for (k = 0; k < n; ++k) if (obs->out[obs->r[opi].ooff + k] != exp_->out[exp_->r[opi].ooff + k]) break;
            sb_printf(&d, ",\"first_diff_byte\":%u,\"block\":%u,\"observed\":", k, k / h->c->bb);
            sb_hexn(&d, obs->out + obs->r[opi].ooff + k / h->c->bb * h->c->bb, h->c->bb, 16);
            sb_printf(&d, ",\"expected\":");
            sb_hexn(&d, exp_->out + exp_->r[opi].ooff + k / h->c->bb * h->c->bb, h->c->bb, 16);
        }
    }
    sb_printf(&d, "}");
    replay_json(&rp, idx, h);
    vh_violation(key, d.p, rp.p);
    sb_free(&d); sb_free(&rp);
}

/* expected outputs from the library's own single-block functions */
static void single_block_expected(const phist *h, ctrans *t)
{
    const vh_cipher *c = h->c;
    Skinny128Key_t k128; Skinny64Key_t k64; MantisKey_t km;
    int live = 0, keyed = 0, i;
    t->out_n = 0;
    for (i = 0; i < h->n; ++i) {
        const cop *o = &h->ops[i];
        t->r[i].ret = o->expect; t->r[i].ooff = (uint32_t)t->out_n; t->r[i].olen = 0;
        if (o->flags & F_NULL_OBJ) continue;
        switch (o->kind) {
        case P_INIT: live = 1; keyed = 0; break;
        case P_CLEANUP: live = 0; keyed = 0; break;
        case P_SWAP: if (live && keyed) mantis_swap_modes(&km); break;
        case P_SET_KEY:
            if (o->expect == 1) {
                keyed = 1;
                if (c->id == CIPH_S128) skinny128_set_key(&k128, h->pool + o->doff, o->len);
                else if (c->id == CIPH_S64) skinny64_set_key(&k64, h->pool + o->doff, o->len);
                else mantis_set_key(&km, h->pool + o->doff, o->len, o->rounds, (int)h->mode[i]);
            }
            break;
        case P_ENCRYPT: case P_DECRYPT:
            if (o->judged) {
                uint32_t b, nb = o->len / c->bb;
                const uint8_t *in = h->pool + o->doff;
                for (b = 0; b < nb; ++b) {
                    uint8_t *dst = t->out + t->out_n + b * c->bb;
                    if (c->id == CIPH_S128) (o->kind == P_DECRYPT ? skinny128_ecb_decrypt : skinny128_ecb_encrypt)(dst, in + 16 * b, &k128);
                    else if (c->id == CIPH_S64) (o->kind == P_DECRYPT ? skinny64_ecb_decrypt : skinny64_ecb_encrypt)(dst, in + 8 * b, &k64);
                    else mantis_ecb_crypt_tweaked(dst, in + 8 * b, in + o->len + 8 * b, &km);
                }
                t->r[i].olen = o->len; t->out_n += o->len;
            }
            break;
        }
    }
}

static unsigned gflags_for_mode(void)
{
    if (!strcmp(vh_arg_mode, "model")) return G_MISALIGN | G_INBETWEEN_KEYS;
    if (!strcmp(vh_arg_mode, "xbe")) return G_MISALIGN | G_LIFECYCLE | G_INVALID | G_UNKEYED | G_INBETWEEN_KEYS;
    if (!strcmp(vh_arg_mode, "twin")) return G_MISALIGN | G_LIFECYCLE | G_INVALID | G_UNKEYED | G_SMALL | G_INBETWEEN_KEYS;
    fprintf(stderr, "drv_par: unknown mode %s\n", vh_arg_mode); exit(2);
}

/* structured C07 cases: every block count 0..3*8+3, enc and dec, each cipher */
static void gen_structured(phist *h, const vh_cipher *c, uint64_t k, vh_rng *r)
{
    uint32_t nb = (uint32_t)(k % 28), dec = (uint32_t)((k / 28) & 1), per = c->id == CIPH_MANTIS ? 2 : 1;
    cop *o; uint8_t buf[48];
    h->c = c; h->n = 0; h->pool_n = 0;
    o = &h->ops[h->n]; h->mode[h->n++] = 0; memset(o, 0, sizeof(*o)); o->kind = P_INIT; o->cls = "init"; o->mis_a = o->mis_b = -1;
    o = &h->ops[h->n]; h->mode[h->n++] = dec ? MANTIS_DECRYPT : MANTIS_ENCRYPT; memset(o, 0, sizeof(*o)); o->kind = P_SET_KEY; o->cls = "set_key"; o->mis_a = o->mis_b = -1;
    o->len = c->id == CIPH_MANTIS ? 16 : c->bb * (1 + vh_below(r, 3)); o->rounds = 5 + vh_below(r, 4);
    vh_rand_bytes(r, buf, o->len); o->doff = (uint32_t)h->pool_n; memcpy(h->pool + h->pool_n, buf, o->len); h->pool_n += o->len; o->dlen = o->len;
    o = &h->ops[h->n]; h->mode[h->n++] = 0; memset(o, 0, sizeof(*o)); o->mis_a = o->mis_b = -1;
    o->kind = (dec && c->id != CIPH_MANTIS) ? P_DECRYPT : P_ENCRYPT; o->cls = p_kind_names[o->kind];
    o->len = nb * c->bb; o->dlen = o->len * per; o->doff = (uint32_t)h->pool_n; vh_rand_bytes(r, h->pool + h->pool_n, o->dlen); h->pool_n += o->dlen;
    if (k & 64) o->flags |= F_INPLACE;
    o = &h->ops[h->n]; h->mode[h->n++] = 0; memset(o, 0, sizeof(*o)); o->kind = P_CLEANUP; o->cls = "cleanup(final)"; o->mis_a = o->mis_b = -1;
    phist_annotate(h);
}

/* large single calls (64 KiB .. 1 MiB+): sizes the history pool cannot hold */
static void big_case(uint64_t idx)
{
    vh_rng r; const vh_cipher *c = &vh_ciphers[idx % CIPH_N];
    int be = (int)((idx / CIPH_N) % (uint64_t)(maxbe[c->id] + 1)), dec = (int)((idx / 9) & 1), inplace = (int)((idx / 18) & 1);
    static const uint32_t NB[] = {4096, 4097, 8191, 65535, 65536, 65537, 70001, 131073, 262145, 524289, 1048577, 524296, 4194312};   /* the last one: a single request of 32 MiB (8-byte blocks) / 64 MiB and a bit */
    uint32_t nb = NB[(idx / 36) % 13], b; size_t len = (size_t)nb * c->bb;
    uint8_t key[48], *in = malloc(len), *out = malloc(len), *tw = malloc(len), *exp_ = malloc(len);
    unsigned klen, rounds = 5 + (unsigned)(idx % 4);
    vh_handle h; char pfx[160], d[300]; int ret;
    Skinny128Key_t k128; Skinny64Key_t k64; MantisKey_t km;
    vh_rng_seed(&r, vh_seed, 0xB1, idx);
    snprintf(d, sizeof(d), "{\"driver\":\"drv_par\",\"prop\":\"%s\",\"mode\":\"big\",\"seed\":%llu,\"case\":%llu,\"variant\":\"%s\"}", prop, (unsigned long long)vh_seed, (unsigned long long)idx, vh_variant);
    snprintf(pfx, sizeof(pfx), "%s:%s-parallel:%s:large-call", prop, c->name, vh_backend_names[be]);
    vh_case_begin(idx, pfx, d);
    klen = c->id == CIPH_MANTIS ? 16 : c->bb * (1 + vh_below(&r, 3));
    vh_rand_bytes(&r, key, 48); vh_rand_bytes(&r, in, len); vh_rand_bytes(&r, tw, len);
    memset(&h, 0, sizeof(h)); vh_set_cap(be);
    c->par_init(&h); c->par_set_key(&h, key, klen, rounds, dec ? MANTIS_DECRYPT : MANTIS_ENCRYPT);
    if (c->id == CIPH_S128) { skinny128_set_key(&k128, key, klen); for (b = 0; b < nb; ++b) (dec ? skinny128_ecb_decrypt : skinny128_ecb_encrypt)(exp_ + 16 * (size_t)b, in + 16 * (size_t)b, &k128); }
    else if (c->id == CIPH_S64) { skinny64_set_key(&k64, key, klen); for (b = 0; b < nb; ++b) (dec ? skinny64_ecb_decrypt : skinny64_ecb_encrypt)(exp_ + 8 * (size_t)b, in + 8 * (size_t)b, &k64); }
    else { mantis_set_key(&km, key, 16, rounds, dec ? MANTIS_DECRYPT : MANTIS_ENCRYPT); for (b = 0; b < nb; ++b) mantis_ecb_crypt_tweaked(exp_ + 8 * (size_t)b, in + 8 * (size_t)b, tw + 8 * (size_t)b, &km); }
    if (inplace) memcpy(out, in, len); else vh_make_undef(out, len);
    vh_call_begin("parallel large call");
    ret = ((dec && c->par_decrypt) ? c->par_decrypt : c->par_encrypt)(out, inplace ? out : in, tw, len, &h);
    vh_call_end();
    VH_COUNT("large_calls", 1); VH_COUNT("judged_blocks", nb); VH_MAXC("max_blocks_in_one_call", nb);
    if (vh_def_available()) { vh_check_defined("return-value", &ret, sizeof(ret)); vh_check_defined("output", out, len); }
    if (ret != 1 || memcmp(out, exp_, len)) {
        size_t q = 0; char key_[200], dd[300]; while (q < len && out[q] == exp_[q]) ++q;
        snprintf(dd, sizeof(dd), "{\"cipher\":\"%s\",\"backend\":\"%s\",\"blocks\":%u,\"decrypt\":%d,\"in_place\":%d,\"first_diff_block\":%lu,\"ret\":%d}", c->name, vh_backend_names[be], nb, dec, inplace, (unsigned long)(q / c->bb), ret);
        snprintf(key_, sizeof(key_), "%s:%s-parallel:%s:large-call-differs-from-single-block-functions", prop, c->name, vh_backend_names[be]);
        vh_violation(key_, dd, d);
    }
    if (vh_distinct(vh_hash(&idx, 8, vh_seed ^ 0xB1B1))) VH_COUNT("distinct_nontrivial_histories", 1);
    c->par_cleanup(&h);
    free(in); free(out); free(tw); free(exp_);
}

/* twin mode, large refused requests: a byte count above 64 KiB that is not a whole number of blocks must be refused before
   anything is written - the output buffer (separate or in place) keeps its contents and later results are unaffected */
static void ragged_big(uint64_t idx, const vh_cipher *c, vh_rng *r)
{
    static uint8_t in[400000], out[400000], tw[400000], ref[64], got[64];
    int be, nbe = maxbe[c->id] + 1;
    for (be = 0; be < nbe; ++be) {
        vh_handle h; uint8_t key[16]; size_t n = 65536 + (size_t)vh_below(r, 300000), k; int ret, ret2, inplace = (int)vh_below(r, 2), dec = c->par_decrypt && vh_below(r, 2); char key_[200]; const char *bad = NULL;
        n = n / c->bb * c->bb + 1 + vh_below(r, c->bb - 1);            /* ragged */
        memset(&h, 0, sizeof(h)); vh_set_cap(be);
        vh_rand_bytes(r, key, 16); vh_rand_bytes(r, in, 4096); for (k = 4096; k < n; ++k) in[k] = (uint8_t)(in[k - 4096] + 3);
        memset(out, 0xEE, n); vh_rand_bytes(r, tw, 64); for (k = 64; k < n; ++k) tw[k] = (uint8_t)(tw[k - 64] ^ (k >> 6));
        snprintf(key_, sizeof(key_), "%s:%s-parallel:%s:large-ragged-request", prop, c->name, vh_backend_names[be]); vh_set_crash_key(key_);
        vh_call_begin("parallel large ragged request");
        c->par_init(&h); c->par_set_key(&h, key, 16, 7, MANTIS_ENCRYPT);
        c->par_encrypt(ref, in, tw, 4 * c->bb, &h);
        if (inplace) { memcpy(out, in, n); ret = (dec ? c->par_decrypt : c->par_encrypt)(out, out, tw, n, &h); }
        else ret = (dec ? c->par_decrypt : c->par_encrypt)(out, in, tw, n, &h);
        ret2 = c->par_encrypt(got, in, tw, 4 * c->bb, &h);
        c->par_cleanup(&h);
        vh_call_end();
        VH_COUNT("large_ragged_requests_checked", 1);
        if (ret != 0) bad = "returned-nonzero";
        else if (!ret2 || memcmp(got, ref, 4 * c->bb)) bad = "later-results-changed";
        else for (k = 0; k < n; ++k) if (out[k] != (inplace ? in[k] : 0xEE)) { bad = "rejected-call-wrote-to-the-output-buffer"; break; }
        if (bad) {
            char k2[260], d[200];
            snprintf(k2, sizeof(k2), "%s:%s-parallel:%s:%s:size-not-multiple-of-block(large):%s", prop, c->name, vh_backend_names[be], dec ? "decrypt" : "encrypt", bad);
            snprintf(d, sizeof(d), "{\"bytes\":%lu,\"in_place\":%d,\"ret\":%d,\"driver\":\"drv_par\",\"mode\":\"twin\",\"case\":%llu}", (unsigned long)n, inplace, ret, (unsigned long long)idx);
            vh_violation(k2, d, d);
        }
    }
}

/* xbe, change counts (see drv_ctr): use, then exactly N set_key calls in a row (N around 2^8 and 2^16), then use again; encrypt and
   decrypt of whole batches and left-over blocks must equal a fresh object that only ever saw the last key */
static void change_count_case(uint64_t idx, const vh_cipher *c, vh_rng *r)
{
    static const unsigned NS[] = {255, 256, 257, 511, 512, 513, 65535, 65536, 65537, 1, 2, 131072};
    unsigned N = NS[(idx / 40) % 12], k; int be, nbe = maxbe[c->id] + 1; char pfx[160];
    uint8_t key[48], last[48], in[19 * 16], tw[19 * 16], o1[2][19 * 16], o2[2][19 * 16], w[19 * 16]; size_t len = 19 * (size_t)c->bb;
    vh_rand_bytes(r, key, 48); vh_rand_bytes(r, in, sizeof(in)); vh_rand_bytes(r, tw, sizeof(tw));
    for (be = 0; be < nbe; ++be) {
        vh_handle h, f; int ra = 1, rb = 1, swaps = (int)vh_below(r, 2); unsigned rounds = 5 + vh_below(r, 4), klen = c->id == CIPH_MANTIS ? 16 : c->bb * (1 + vh_below(r, 3));
        vh_rng q; vh_rng_seed(&q, vh_rand(r), 0xCA, 7);
        memset(&h, 0, sizeof(h)); memset(&f, 0, sizeof(f)); vh_set_cap(be);
        snprintf(pfx, sizeof(pfx), "%s:%s-parallel:%s:change-count", prop, c->name, vh_backend_names[be]); vh_set_crash_key(pfx);
        vh_call_begin("change-count history");
        ra &= c->par_init(&h); ra &= c->par_set_key(&h, key, klen, rounds, MANTIS_ENCRYPT);
        ra &= c->par_encrypt(w, in, tw, len, &h); if (c->par_decrypt) ra &= c->par_decrypt(w, in, tw, len, &h);     /* first use: lazily built state is now current */
        memcpy(last, key, 48);
        for (k = 0; k < N; ++k) {
            vh_rand_bytes(&q, last, 48); ra &= c->par_set_key(&h, last, klen, rounds, MANTIS_ENCRYPT);
            if (swaps && c->par_swap && (k & 1)) c->par_swap(&h), c->par_swap(&h);                                      /* short interludes that change nothing */
            if ((k & 1023) == 5) ra &= c->par_encrypt(w, in, tw, 3 * c->bb, &h);                                        /* ... and a few requests below one batch */
        }
        ra &= c->par_encrypt(o1[0], in, tw, len, &h); if (c->par_decrypt) ra &= c->par_decrypt(o1[1], in, tw, len, &h);
        c->par_cleanup(&h);
        rb &= c->par_init(&f); rb &= c->par_set_key(&f, last, klen, rounds, MANTIS_ENCRYPT);
        rb &= c->par_encrypt(o2[0], in, tw, len, &f); if (c->par_decrypt) rb &= c->par_decrypt(o2[1], in, tw, len, &f);
        c->par_cleanup(&f);
        vh_call_end();
        VH_COUNT("change_count_histories", 1); VH_MAXC("max_consecutive_key_changes_on_one_object", N);
        if (ra != 1 || rb != 1 || memcmp(o1[0], o2[0], len) || (c->par_decrypt && memcmp(o1[1], o2[1], len))) {
            char key_[220], d[260];
            snprintf(key_, sizeof(key_), "%s:%s-parallel:%s:result-depends-on-the-number-of-earlier-set_key-calls", prop, c->name, vh_backend_names[be]);
            snprintf(d, sizeof(d), "{\"cipher\":\"%s\",\"backend\":\"%s\",\"changes\":%u,\"rets\":[%d,%d],\"encrypt_differs\":%d,\"driver\":\"drv_par\",\"mode\":\"xbe\",\"case\":%llu}", c->name, vh_backend_names[be], N, ra, rb, memcmp(o1[0], o2[0], len) != 0, (unsigned long long)idx);
            vh_violation(key_, d, d);
        }
    }
}

/* model mode, Mantis only: mode values other than the two named constants.  What they mean is the library's business; what
   C07 says is that the parallel object and the single-block functions agree - in whether the key call succeeds and, if it does,
   on every block (whole batches and left-overs), also after swap_modes */
static void odd_mode_case(uint64_t idx, vh_rng *r)
{
    static const int MODES[] = {2, 3, -1, 255, 256, 257, 0x10001, -255, 0x7FFFFFFF, (int)0x80000000u, 0x101};
    const vh_cipher *c = &vh_ciphers[CIPH_MANTIS]; int mode = MODES[(idx / 40) % 11], be, nbe = maxbe[c->id] + 1; char pfx[160];
    uint8_t key[16], in[19 * 8], tw[19 * 8], o1[19 * 8], o2[19 * 8]; unsigned rounds = 5 + vh_below(r, 4), b;
    vh_rand_bytes(r, key, 16); vh_rand_bytes(r, in, sizeof(in)); vh_rand_bytes(r, tw, sizeof(tw));
    for (be = 0; be < nbe; ++be) {
        vh_handle h; MantisKey_t ks; int r1, r2, swap = (int)vh_below(r, 2); const char *bad = NULL;
        memset(&h, 0, sizeof(h)); memset(&ks, 0, sizeof(ks)); vh_set_cap(be);
        snprintf(pfx, sizeof(pfx), "%s:mantis-parallel:%s:unlisted-mode-value", prop, vh_backend_names[be]); vh_set_crash_key(pfx);
        vh_call_begin("set_key with an unlisted mode value");
        c->par_init(&h); r1 = c->par_set_key(&h, key, 16, rounds, mode); r2 = mantis_set_key(&ks, key, 16, rounds, mode);
        if (r1 && r2) {
            if (swap) { c->par_swap(&h); mantis_swap_modes(&ks); }
            c->par_encrypt(o1, in, tw, sizeof(in), &h);
            for (b = 0; b < 19; ++b) mantis_ecb_crypt_tweaked(o2 + 8 * b, in + 8 * b, tw + 8 * b, &ks);
        }
        c->par_cleanup(&h);
        vh_call_end();
        VH_COUNT("unlisted_mode_value_cases", 1);
        if (!!r1 != !!r2) bad = "parallel-and-single-block-key-functions-disagree-on-acceptance";
        else if (r1 && memcmp(o1, o2, sizeof(in))) bad = "differs-from-single-block-functions";
        if (bad) {
            char key_[240], d[220];
            snprintf(key_, sizeof(key_), "%s:mantis-parallel:%s:unlisted-mode-value:%s", prop, vh_backend_names[be], bad);
            snprintf(d, sizeof(d), "{\"mode_value\":%d,\"rounds\":%u,\"swap\":%d,\"rets\":[%d,%d],\"driver\":\"drv_par\",\"mode\":\"model\",\"case\":%llu}", mode, rounds, swap, r1, r2, (unsigned long long)idx);
            vh_violation(key_, d, d);
        }
    }
}

/* model mode, fork: an object keyed in one process is used in a forked child (pre-forked workers).  The child must compute what
   the single-block functions compute; the parent's object must be unaffected by what the child did. */
#include <sys/wait.h>
#include <unistd.h>
static void fork_case(uint64_t idx, const vh_cipher *c, vh_rng *r)
{
    int be, nbe = maxbe[c->id] + 1; uint8_t key[48], in[19 * 16], tw[19 * 16], want[19 * 16], got[19 * 16]; size_t len = 19 * (size_t)c->bb, b;
    unsigned klen = c->id == CIPH_MANTIS ? 16 : c->bb * (1 + vh_below(r, 3)), rounds = 5 + vh_below(r, 4);
    Skinny128Key_t k128; Skinny64Key_t k64; MantisKey_t km;
    vh_rand_bytes(r, key, 48); vh_rand_bytes(r, in, sizeof(in)); vh_rand_bytes(r, tw, sizeof(tw));
    if (c->id == CIPH_S128) { skinny128_set_key(&k128, key, klen); for (b = 0; b < 19; ++b) skinny128_ecb_encrypt(want + 16 * b, in + 16 * b, &k128); }
    else if (c->id == CIPH_S64) { skinny64_set_key(&k64, key, klen); for (b = 0; b < 19; ++b) skinny64_ecb_encrypt(want + 8 * b, in + 8 * b, &k64); }
    else { mantis_set_key(&km, key, 16, rounds, MANTIS_ENCRYPT); for (b = 0; b < 19; ++b) mantis_ecb_crypt_tweaked(want + 8 * b, in + 8 * b, tw + 8 * b, &km); }
    for (be = 0; be < nbe; ++be) {
        vh_handle h; pid_t pid; int st = 0, okp; char pfx[160];
        memset(&h, 0, sizeof(h)); vh_set_cap(be);
        snprintf(pfx, sizeof(pfx), "%s:%s-parallel:%s:used-in-a-forked-child", prop, c->name, vh_backend_names[be]); vh_set_crash_key(pfx);
        c->par_init(&h); c->par_set_key(&h, key, klen, rounds, MANTIS_ENCRYPT);
        fflush(stdout);
        pid = fork();
        if (pid == 0) { int ok = c->par_encrypt(got, in, tw, len, &h) && !memcmp(got, want, len); c->par_cleanup(&h); _exit(ok ? 0 : 1); }
        if (pid > 0) waitpid(pid, &st, 0);
        okp = c->par_encrypt(got, in, tw, len, &h) && !memcmp(got, want, len);
        c->par_cleanup(&h);
        VH_COUNT("objects_used_in_a_forked_child", 1);
        if (pid > 0 && (!WIFEXITED(st) || WEXITSTATUS(st) != 0 || !okp)) {
            char key_[240], d[200];
            snprintf(key_, sizeof(key_), "%s:%s-parallel:%s:used-in-a-forked-child:%s", prop, c->name, vh_backend_names[be], okp ? "child-result-differs-from-single-block-functions" : "parent-result-differs-after-fork");
            snprintf(d, sizeof(d), "{\"child_status\":%d,\"driver\":\"drv_par\",\"mode\":\"model\",\"case\":%llu}", st, (unsigned long long)idx);
            vh_violation(key_, d, d);
        }
    }
}

static void one_case(uint64_t idx)
{
    vh_rng r;
    const vh_cipher *c = &vh_ciphers[idx % CIPH_N];
    unsigned g = gflags_for_mode();
    int be, nbe = maxbe[c->id] + 1, i;
    char pfx[128];
    uint64_t nstruct = strtoull(vh_getarg("structured", "0"), NULL, 0);
    vh_rng_seed(&r, vh_seed, 0x9A, idx);
    {
        vh_sb d; sb_init(&d);
        sb_printf(&d, "{\"driver\":\"drv_par\",\"prop\":\"%s\",\"mode\":\"%s\",\"seed\":%llu,\"case\":%llu,\"variant\":\"%s\"}", prop, vh_arg_mode,
                  (unsigned long long)vh_seed, (unsigned long long)idx, vh_variant);
        snprintf(pfx, sizeof(pfx), "%s:%s-parallel", prop, c->name);
        vh_case_begin(idx, pfx, d.p); sb_free(&d);
    }
    if (!strcmp(vh_arg_mode, "twin") && idx % 40 == 9) { ragged_big(idx, c, &r); return; }
    if (!strcmp(vh_arg_mode, "xbe") && idx % 40 == 23) { change_count_case(idx, c, &r); return; }
    if (!strcmp(vh_arg_mode, "model") && idx % 40 == 29 && idx >= nstruct) { odd_mode_case(idx, &r); return; }
    if (!strcmp(vh_arg_mode, "model") && idx % 40 == 33 && idx >= nstruct) { fork_case(idx, c, &r); return; }
    if (!strcmp(vh_arg_mode, "model") && idx < nstruct) { gen_structured(&H, c, idx / CIPH_N, &r); VH_COUNT("structured_cases", 1); }
    else phist_gen(&H, c, &r, g);
    VH_COUNT("histories", 1); VH_COUNT("ops", H.n);
    for (i = 0; i < H.n; ++i) {
        const cop *o = &H.ops[i];
        if ((o->kind == P_ENCRYPT || o->kind == P_DECRYPT) && o->judged) {
            VH_COUNT("judged_blocks", o->len / c->bb);
            if ((o->len / c->bb) % 8) VH_COUNT("calls_with_remainder_blocks", 1);
            if (o->len == 0) VH_COUNT("zero_block_calls", 1);
        }
        if (o->expect == 0) VH_COUNT("invalid_calls", 1);
    }
    if (vh_distinct(phist_hash(&H)) && H.n > 2) VH_COUNT("distinct_nontrivial_histories", 1);
    if (vh_want_sample()) { vh_sb s; sb_init(&s); phist_json(&H, &s); vh_sample(s.p); sb_free(&s); }

    if (!strcmp(vh_arg_mode, "model")) {
        phist_model(&H, &TM);
        single_block_expected(&H, &TS);
        for (be = 0; be < nbe; ++be) {
            int opi, what;
            vh_set_cap(be);
            snprintf(pfx, sizeof(pfx), "%s:%s-parallel:%s", prop, c->name, vh_backend_names[be]);
            phist_run(&H, &T[be], pfx);
            if (T[be].backend != be) { report(c->name, be, "backend-not-pinned", idx, &H, -1, NULL, NULL); continue; }
            { static char cn[3][3][48]; if (!cn[c->id][be][0]) snprintf(cn[c->id][be], 48, "runs_%s_%s", c->name, vh_backend_names[be]); *vh_counter_ref(cn[c->id][be]) += 1; }
            if (T[be].canary_damage) report(c->name, be, "canary-damaged", idx, &H, T[be].canary_damage - 1, &T[be], NULL);
            if (T[be].rejected_wrote) report(c->name, be, "rejected-call-wrote-to-the-output-buffer", idx, &H, T[be].rejected_wrote - 1, &T[be], NULL);
            opi = ctrans_diff(H.ops, H.n, &T[be], &TS, 1, &what);
            if (opi >= 0) report(c->name, be, what == 0 ? "return-value" : "differs-from-single-block-functions", idx, &H, opi, &T[be], &TS);
            opi = ctrans_diff(H.ops, H.n, &T[be], &TM, 1, &what);
            if (opi >= 0 && what == 1) report(c->name, be, "differs-from-reference-model", idx, &H, opi, &T[be], &TM);
        }
    } else if (!strcmp(vh_arg_mode, "xbe")) {
        for (be = 0; be < nbe; ++be) {
            vh_set_cap(be);
            snprintf(pfx, sizeof(pfx), "%s:%s-parallel:%s", prop, c->name, vh_backend_names[be]);
            phist_run(&H, &T[be], pfx);
            if (T[be].backend >= 0 && T[be].backend != be) report(c->name, be, "backend-not-pinned", idx, &H, -1, NULL, NULL);
            if (T[be].canary_damage) report(c->name, be, "canary-damaged", idx, &H, T[be].canary_damage - 1, &T[be], NULL);
            if (T[be].rejected_wrote) report(c->name, be, "rejected-call-wrote-to-the-output-buffer", idx, &H, T[be].rejected_wrote - 1, &T[be], NULL);
        }
        VH_COUNT("backend_pairs_compared", nbe - 1);
        for (be = 1; be < nbe; ++be) {
            int what, opi = ctrans_diff(H.ops, H.n, &T[be], &T[0], 0, &what);
            if (opi >= 0) report(c->name, be, what == 0 ? "return-value-differs-from-generic" : "output-differs-from-generic", idx, &H, opi, &T[be], &T[0]);
        }
    } else {
        static int map[H_MAXOPS];
        phist_strip_invalid(&H, &H2, map);
        VH_COUNT("twin_pairs", 1);
        for (be = 0; be < nbe; ++be) {
            int j;
            vh_set_cap(be);
            snprintf(pfx, sizeof(pfx), "%s:%s-parallel:%s", prop, c->name, vh_backend_names[be]);
            phist_run(&H, &T[0], pfx);
            phist_run(&H2, &T2, pfx);
            if (T[0].canary_damage) report(c->name, be, "canary-damaged", idx, &H, T[0].canary_damage - 1, &T[0], NULL);
            if (T[0].rejected_wrote) report(c->name, be, "rejected-call-wrote-to-the-output-buffer", idx, &H, T[0].rejected_wrote - 1, &T[0], NULL);
            for (i = 0; i < H.n; ++i) {
                const cop *o = &H.ops[i];
                char cls[128];
                if (o->expect == 0) {
                    VH_COUNT("invalid_calls_checked", 1);
                    if (T[0].r[i].ret != 0) { snprintf(cls, sizeof(cls), "%s:%s:returned-nonzero", p_kind_names[o->kind], o->cls ? o->cls : ""); report(c->name, be, cls, idx, &H, i, &T[0], NULL); }
                } else if (o->expect == 1) {
                    VH_COUNT("valid_calls_checked", 1);
                    if (T[0].r[i].ret != 1) { snprintf(cls, sizeof(cls), "%s:%s:valid-call-did-not-return-1", p_kind_names[o->kind], o->cls ? o->cls : ""); report(c->name, be, cls, idx, &H, i, &T[0], NULL); }
                }
            }
            for (j = 0; j < H2.n; ++j) {
                i = map[j];
                if (T[0].r[i].ret != T2.r[j].ret || T[0].r[i].olen != T2.r[j].olen ||
                    memcmp(T[0].out + T[0].r[i].ooff, T2.out + T2.r[j].ooff, T2.r[j].olen)) {
                    int k = i; char cls[160];
                    while (k >= 0 && H.ops[k].expect != 0) --k;
                    snprintf(cls, sizeof(cls), "%s:%s:later-results-changed", k >= 0 ? p_kind_names[H.ops[k].kind] : "?", k >= 0 && H.ops[k].cls ? H.ops[k].cls : "?");
                    report(c->name, be, cls, idx, &H, i, &T[0], NULL);
                    break;
                }
            }
        }
    }
}

/* C07: the advertised parallel size is a positive multiple of the block size */
static void check_parallel_size(void)
{
    int ci, be;
    for (ci = 0; ci < CIPH_N; ++ci) {
        const vh_cipher *c = &vh_ciphers[ci];
        for (be = 0; be <= maxbe[ci]; ++be) {
            vh_handle h; char key[200];
            memset(&h, 0, sizeof(h));
            vh_set_cap(be);
            if (!c->par_init(&h)) continue;
            VH_COUNT("parallel_size_checks", 1);
            if (h.parallel_size == 0 || h.parallel_size % c->bb) {
                vh_sb d; sb_init(&d);
                sb_printf(&d, "{\"parallel_size\":%lu,\"block\":%u}", (unsigned long)h.parallel_size, c->bb);
                snprintf(key, sizeof(key), "%s:%s-parallel:%s:parallel-size-not-positive-multiple", prop, c->name, vh_backend_names[be]);
                vh_violation(key, d.p, "{\"driver\":\"drv_par\",\"note\":\"parallel_size after init\"}"); sb_free(&d);
            }
            c->par_cleanup(&h);
        }
    }
}

int main(int argc, char **argv)
{
    int i;
    vh_init(argc, argv);
    prop = vh_getarg("prop", "C07");
    if (ref_selftest()) { printf("{\"type\":\"harness_error\",\"detail\":\"ref selftest\"}\n"); return 2; }
    vh_guard_init();
    vh_install_fault_handler();
    for (i = 0; i < CIPH_N; ++i) {
        maxbe[i] = vh_max_backend(&vh_ciphers[i]);
        if (maxbe[i] < 0) { printf("{\"type\":\"inconclusive\",\"reason\":\"cannot identify back end of %s\"}\n", vh_ciphers[i].name); return 2; }
    }
    if (!strcmp(vh_arg_mode, "model") && vh_shard == 0) check_parallel_size();
    if (!strcmp(vh_arg_mode, "big")) vh_run(big_case); else vh_run(one_case);
    vh_finish();
    return 0;
}
