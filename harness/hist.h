/* API-history generation, execution on the real library, and modelling. */
#ifndef VERIF_HIST_H
#define VERIF_HIST_H
#include "vh.h"
#include "lib.h"
#include "ref.h"

#define H_MAXOPS 160
#define H_POOL (48 * 1024)
#define H_OUT (48 * 1024)

enum { C_INIT = 0, C_CLEANUP, C_SET_KEY, C_SET_TKEY, C_SET_TWEAK, C_SET_COUNTER, C_ENCRYPT, C_NKINDS };
extern const char *const c_kind_names[C_NKINDS];

#define F_NULL_OBJ 1     /* pass a NULL object pointer */
#define F_NULL_PTR 2     /* key / tweak / counter pointer NULL */
#define F_NULL_OUT 4
#define F_NULL_IN 8
#define F_INPLACE 16
#define F_FRONT 32       /* front-guarded buffers (default: back-guarded) */
#define F_TWEAK_IN 64    /* Mantis parallel: the tweak array is the input buffer itself */
#define F_TWEAK_OUT 128  /* Mantis parallel, out of place: the tweak array lies in the output buffer (each tweak is consumed before its block is written) */

typedef struct {
    uint8_t kind, flags;
    int16_t mis_a, mis_b;        /* misalignment (0..63) of key-or-input / output; -1 = exact extent */
    uint32_t len;                /* declared length */
    uint32_t rounds;             /* mantis */
    uint32_t doff, dlen;         /* data bytes in pool (dlen = bytes really provided) */
    int8_t expect;               /* expected return value (1/0), -1 for void */
    uint8_t injected;            /* injected invalid call */
    uint8_t judged;              /* model predicts the output (in scope of C05) */
    const char *cls;             /* class label for keys/reports */
} cop;

typedef struct {
    const vh_cipher *c;
    int n;
    cop ops[H_MAXOPS];
    uint8_t pool[H_POOL];
    size_t pool_n;
    /* generator observations */
    uint32_t n_segments, n_judged_bytes, n_carry_bytes_max, n_wraps, n_zero_calls, n_midrekey, n_invalid;
} chist;

typedef struct { int ret; uint32_t ooff, olen; } cres;
typedef struct {
    cres r[H_MAXOPS];
    uint8_t out[H_OUT];
    size_t out_n;
    int backend;                 /* back end observed at the first successful init (-1 none) */
    int canary_damage;           /* op index +1 of first canary damage, 0 none */
    int rejected_wrote;          /* op index +1 of the first call that returned 0 but changed its output buffer, 0 none */
    long canary_where;
} ctrans;

/* an object under test: handle + harness-side bookkeeping */
typedef struct { vh_handle H; int live; int id; int kind; int cap; } vh_obj;
/* optional monitors called around every library call made by the interpreters */
extern void (*vh_pre_call_hook)(vh_obj *ob, int is_cleanup_of_object, int op_index);
extern void (*vh_post_call_hook)(vh_obj *ob, int op_index);
void ctrans_reset(ctrans *t);
/* when set, cleanup of an object that is not live is called on a PROT_READ copy of its handle ("does nothing") */
extern int vh_ro_inert_cleanup;

/* generator flags */
#define G_LIFECYCLE 1    /* cleanup, re-init, use after cleanup, use before init */
#define G_INVALID 2      /* inject invalid calls */
#define G_REKEY_MID 4    /* key/tweak changes mid-stream without counter reset */
#define G_UNKEYED 8      /* data calls before any key */
#define G_PLAIN_TWEAK 16 /* set_tweak on a plain-keyed object */
#define G_SMALL 32       /* short data (faster) */
#define G_MISALIGN 64    /* random placements (else exact-extent back-guarded) */
#define G_TWEAKED_ONLY 128 /* skinny: only tweaked keying (C04 through CTR) */
#define G_INBETWEEN_KEYS 256 /* allow non-primary key lengths */

void chist_gen(chist *h, const vh_cipher *c, vh_rng *r, unsigned gflags);
/* run on the real library with the current back-end cap */
void chist_run(const chist *h, ctrans *t, const char *crash_prefix);
/* execute op i of h on object ob (interleavable) */
void chist_exec(const chist *h, int i, vh_obj *ob, ctrans *t, const char *crash_prefix);
/* model: fills expected outputs for judged ops into t (ret = expect) */
void chist_model(const chist *h, ctrans *t);
/* JSON description (truncated data) */
void chist_json(const chist *h, vh_sb *s);
uint64_t chist_hash(const chist *h);
void chist_annotate(chist *h);           /* recompute expect/judged/observations */
/* copy h without the ops whose expect==0 (twin history) */
void chist_strip_invalid(const chist *h, chist *out, int *map /* out idx -> h idx */);

/* ---------------- parallel ECB histories ---------------- */
enum { P_INIT = 0, P_CLEANUP, P_SET_KEY, P_ENCRYPT, P_DECRYPT, P_SWAP, P_NKINDS };
extern const char *const p_kind_names[P_NKINDS];
typedef struct {
    const vh_cipher *c;
    int n;
    cop ops[H_MAXOPS];           /* len = byte count; rounds; flags; for mantis: tweak array follows data in pool */
    uint32_t mode[H_MAXOPS];     /* mantis set_key mode */
    uint8_t pool[H_POOL];
    size_t pool_n;
} phist;
void phist_gen(phist *h, const vh_cipher *c, vh_rng *r, unsigned gflags);
void phist_run(const phist *h, ctrans *t, const char *crash_prefix);
void phist_exec(const phist *h, int i, vh_obj *ob, ctrans *t, const char *crash_prefix);
void phist_model(const phist *h, ctrans *t);   /* expected via reference models */
void phist_json(const phist *h, vh_sb *s);
uint64_t phist_hash(const phist *h);
void phist_annotate(phist *h);
void phist_strip_invalid(const phist *h, phist *out, int *map);

/* compare transcripts a (observed) vs b (expected/other); only ops with
 * judged (if use_judged) are compared for data; returns first differing op
 * or -1.  *what: 0 ret, 1 data */
int ctrans_diff(const cop *ops, int n, const ctrans *a, const ctrans *b, int use_judged, int *what);

#endif
