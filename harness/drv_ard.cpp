/* Driver for C19: the Arduino C++ port (portable path, compiled for the host)
 * against the C library and the reference models over generated operation
 * sequences for the 11 block-cipher classes and CTR<T>. */
extern "C" {
#include "vh.h"
#include "ref.h"
#include "skinny128-cipher.h"
#include "skinny64-cipher.h"
#include "mantis-cipher.h"
}
#include <string.h>
#include <stdlib.h>
#include "Skinny128.h"
#include "Skinny64.h"
#include "Mantis8.h"
#include "CTR.h"

static void viol(const char *key, uint64_t idx, const char *detail)
{
    vh_sb rp; sb_init(&rp);
    sb_printf(&rp, "{\"driver\":\"drv_ard\",\"prop\":\"C19\",\"mode\":\"c19\",\"seed\":%llu,\"case\":%llu,\"variant\":\"%s\",\"case_detail\":%s}",
              (unsigned long long)vh_seed, (unsigned long long)idx, vh_variant, detail);
    vh_violation(key, detail, rp.p);
    sb_free(&rp);
}

struct ClassInfo { const char *name; unsigned bb, klen; int tweaked; int mantis; };
static const ClassInfo CLS[11] = {
    {"Skinny128_128", 16, 16, 0, 0}, {"Skinny128_256", 16, 32, 0, 0}, {"Skinny128_384", 16, 48, 0, 0},
    {"Skinny128_256_Tweaked", 16, 16, 1, 0}, {"Skinny128_384_Tweaked", 16, 32, 1, 0},
    {"Skinny64_64", 8, 8, 0, 0}, {"Skinny64_128", 8, 16, 0, 0}, {"Skinny64_192", 8, 24, 0, 0},
    {"Skinny64_128_Tweaked", 8, 8, 1, 0}, {"Skinny64_192_Tweaked", 8, 16, 1, 0},
    {"Mantis8", 8, 16, 1, 1}};

struct Obj {
    Skinny128_128 a0; Skinny128_256 a1; Skinny128_384 a2; Skinny128_256_Tweaked a3; Skinny128_384_Tweaked a4;
    Skinny64_64 b0; Skinny64_128 b1; Skinny64_192 b2; Skinny64_128_Tweaked b3; Skinny64_192_Tweaked b4; Mantis8 m;
    BlockCipher *get(int i) {
        switch (i) { case 0: return &a0; case 1: return &a1; case 2: return &a2; case 3: return &a3; case 4: return &a4;
                     case 5: return &b0; case 6: return &b1; case 7: return &b2; case 8: return &b3; case 9: return &b4; default: return &m; }
    }
    bool setTweak(int i, const uint8_t *t, size_t n) {
        switch (i) { case 3: return a3.setTweak(t, n); case 4: return a4.setTweak(t, n); case 8: return b3.setTweak(t, n); case 9: return b4.setTweak(t, n); default: return m.setTweak(t, n); }
    }
};

/* ---- use before main(): a file-scope object of the sketch keys every class and encrypts one block in its constructor.  This
   translation unit is linked before the library's, so its initialisers run first: a class that relies on tables filled by its own
   start-up code answers wrongly here.  main() compares with the C library. ---- */
static const uint8_t EARLY_KEY[48] = {0x60,0x11,0x92,0x23,0xb4,0x35,0xc6,0x47,0xd8,0x59,0xea,0x6b,0xfc,0x7d,0x0e,0x8f,1,2,3,4,5,6,7,8,9,10,11,12,13,14,15,16,
                                      0xa1,0xa2,0xa3,0xa4,0xa5,0xa6,0xa7,0xa8,0xa9,0xaa,0xab,0xac,0xad,0xae,0xaf,0xb0};
static const uint8_t EARLY_TW[16] = {9,8,7,6,5,4,3,2,1,0,0x11,0x22,0x33,0x44,0x55,0x66}, EARLY_IN[16] = {0x3a,0x0c,0x47,0x76,0x7a,0x26,0xa6,0x8d,0xd3,0x82,0xa6,0x95,0xe7,0x02,0x2e,0x25};
static struct EarlyProbe {
    uint8_t out[11][16]; bool ok[11];
    EarlyProbe() {
        Obj *o = new Obj();
        for (int i = 0; i < 11; ++i) {
            BlockCipher *bc = o->get(i);
            ok[i] = bc->setKey(EARLY_KEY, CLS[i].klen);
            if (CLS[i].tweaked) ok[i] = ok[i] && o->setTweak(i, EARLY_TW, CLS[i].mantis ? 8 : CLS[i].bb);
            memset(out[i], 0, 16); bc->encryptBlock(out[i], EARLY_IN);
        }
        delete o;
    }
} g_early;

/* ---- copies: a keyed object is copied (copy construction and assignment), the copy is used and destroyed, and the original is used
   again.  Only compiled for classes that are copyable; a copy must never disturb the object it was made from. ---- */
#include <type_traits>
template <typename T> static typename std::enable_if<std::is_copy_constructible<T>::value && std::is_copy_assignable<T>::value, int>::type
copy_probe(const uint8_t *key, size_t klen, const uint8_t *in, unsigned bb, const uint8_t *want)
{
    T orig; uint8_t o1[16], o2[16]; int bad = 0;
    if (!orig.setKey(key, klen)) return 4;
    {
        T c1(orig); T c2; c2 = orig;
        c1.encryptBlock(o1, in); c2.encryptBlock(o2, in);
        if (memcmp(o1, want, bb) || memcmp(o2, want, bb)) bad |= 1;           /* the copies compute what the original computes */
    }                                                                          /* the copies die here */
    orig.encryptBlock(o1, in);
    if (memcmp(o1, want, bb)) bad |= 2;                                        /* ... and the original is unharmed */
    return bad;
}
template <typename T> static typename std::enable_if<!(std::is_copy_constructible<T>::value && std::is_copy_assignable<T>::value), int>::type
copy_probe(const uint8_t *, size_t, const uint8_t *, unsigned, const uint8_t *) { return -1; }

/* expected block result from the C library, schedule built from scratch from (key, tweak, mode) */
static void c_expected(const ClassInfo &ci, const uint8_t *key, const uint8_t *tweak, int dec_or_mode, const uint8_t *in, uint8_t *out)
{
    if (ci.mantis) {
        MantisKey_t ks;
        mantis_set_key(&ks, key, 16, 8, dec_or_mode ? MANTIS_DECRYPT : MANTIS_ENCRYPT);
        mantis_set_tweak(&ks, tweak, 8);
        mantis_ecb_crypt(out, in, &ks);
    } else if (ci.bb == 16) {
        if (ci.tweaked) { Skinny128TweakedKey_t tk; skinny128_set_tweaked_key(&tk, key, ci.klen); skinny128_set_tweak(&tk, tweak, 16); if (dec_or_mode) skinny128_ecb_decrypt(out, in, &tk.ks); else skinny128_ecb_encrypt(out, in, &tk.ks); }
        else { Skinny128Key_t ks; skinny128_set_key(&ks, key, ci.klen); if (dec_or_mode) skinny128_ecb_decrypt(out, in, &ks); else skinny128_ecb_encrypt(out, in, &ks); }
    } else {
        if (ci.tweaked) { Skinny64TweakedKey_t tk; skinny64_set_tweaked_key(&tk, key, ci.klen); skinny64_set_tweak(&tk, tweak, 8); if (dec_or_mode) skinny64_ecb_decrypt(out, in, &tk.ks); else skinny64_ecb_encrypt(out, in, &tk.ks); }
        else { Skinny64Key_t ks; skinny64_set_key(&ks, key, ci.klen); if (dec_or_mode) skinny64_ecb_decrypt(out, in, &ks); else skinny64_ecb_encrypt(out, in, &ks); }
    }
}
static void model_expected(const ClassInfo &ci, const uint8_t *key, const uint8_t *tweak, int dec_or_mode, const uint8_t *in, uint8_t *out)
{
    if (ci.mantis) { if (dec_or_mode) ref_mantis_decrypt(8, key, tweak, in, out); else ref_mantis_encrypt(8, key, tweak, in, out); }
    else if (ci.tweaked) ref_skinny_tweaked_crypt(ci.bb, key, ci.klen, tweak, ci.bb, dec_or_mode, in, out);
    else ref_skinny_key_crypt(ci.bb, key, ci.klen, dec_or_mode, in, out);
}

static void case_block(uint64_t idx, vh_rng *r)
{
    int ci_i = (int)(idx % 11); const ClassInfo &ci = CLS[ci_i];
    Obj *o = new Obj(); BlockCipher *bc = o->get(ci_i);
    uint8_t key[48], tweak[16], in[16], out[16], e1[16], e2[16]; static uint8_t bigkey[70000];
    unsigned nops = 2 + vh_below(r, 40), i, tl = ci.mantis ? 8 : ci.bb; int keyed = 0, mode = 0; char k_[200];
    vh_sb log; sb_init(&log); sb_printf(&log, "[");
    uint64_t hh = VH_HASH_INIT + (uint64_t)ci_i;
    memset(tweak, 0, 16);
    snprintf(k_, sizeof(k_), "C19:%s", ci.name); vh_set_crash_key(k_);
    for (i = 0; i < nops; ++i) {
        unsigned op = keyed ? vh_below(r, 12) : 0; const char *bad = NULL;
        if (log.n < 2500) sb_printf(&log, "%s", i ? "," : "");
        if (op == 0 || op == 1) {
            if (op == 1) { vh_call_begin("clear"); bc->clear(); vh_call_end(); if (log.n < 2500) sb_printf(&log, "\"clear\","); }
            if (!vh_below(r, 6)) {   /* wrong key length must be rejected by both */
                size_t bl = ci.klen + 1 + vh_below(r, 3); bool rr;
                switch (vh_below(r, 6)) {      /* also lengths that only differ in the high bits (an 8- or 16-bit length variable would accept them) and zero */
                case 0: bl = ci.klen + 256 * (1 + vh_below(r, 2)); break;
                case 1: bl = ci.klen + 65536; break;
                case 2: bl = 0; break;
                case 3: bl = ci.klen - 1; break;
                default: break;
                }
                vh_call_begin("setKey(bad length)"); rr = bc->setKey(bigkey, bl); vh_call_end();
                VH_COUNT("invalid_length_calls", 1);
                if (rr) bad = "setKey-accepted-wrong-length";
            }
            vh_fill_interesting(r, key, ci.klen); memset(tweak, 0, 16); mode = 0; keyed = 1;
            if (bc->keySize() != ci.klen || bc->blockSize() != ci.bb) bad = "keySize-or-blockSize-differs-from-c-library-variant";
            vh_call_begin("setKey"); if (!bc->setKey(key, vh_below(r, 2) ? ci.klen : bc->keySize())) bad = "setKey-rejected-valid-key"; vh_call_end();
            hh = vh_hash(key, ci.klen, hh);
            if (log.n < 2500) { sb_printf(&log, "{\"setKey\":"); sb_hex(&log, key, ci.klen); sb_printf(&log, "}"); }
        } else if (op <= 4 && ci.tweaked) {
            int null = !vh_below(r, 6);
            if (!vh_below(r, 6)) {
                /* lengths every variant of the C library refuses as well: longer than the block (also by a multiple of 256), zero, and for
                   Mantis any length other than 8 - with a buffer or with NULL; the call must return false and leave the tweak alone */
                bool rr; size_t wl = tl + 1 + vh_below(r, 3); const uint8_t *wp = bigkey;
                switch (vh_below(r, 6)) {
                case 0: wl = tl + 256; break;
                case 1: wl = 0; break;
                case 2: wp = NULL; break;
                case 3: if (ci.mantis) wl = 1 + vh_below(r, 7); break;
                case 4: wp = NULL; wl = ci.mantis ? vh_below(r, 8) : 0; break;
                default: break;
                }
                vh_call_begin("setTweak(bad length)"); rr = o->setTweak(ci_i, wp, wl); vh_call_end(); if (rr) bad = "setTweak-accepted-wrong-length"; VH_COUNT("invalid_length_calls", 1);
            }
            if (!null && !vh_below(r, 5)) VH_COUNT("tweak_set_to_its_current_value_again", 1);     /* same tweak again: must behave like any other tweak change */
            else { memset(tweak, 0, 16); if (!null) vh_fill_interesting(r, tweak, tl); }
            vh_call_begin("setTweak"); if (!o->setTweak(ci_i, null ? NULL : tweak, tl)) bad = "setTweak-rejected-valid-tweak"; vh_call_end();
            VH_COUNT("tweak_changes", 1); if (null) VH_COUNT("null_tweaks", 1);
            hh = vh_hash(tweak, 16, hh);
            if (log.n < 2500) { sb_printf(&log, "{\"setTweak\":"); if (null) sb_printf(&log, "null"); else sb_hex(&log, tweak, tl); sb_printf(&log, "}"); }
        } else if (op == 5 && ci.mantis) {
            vh_call_begin("swapModes"); o->m.swapModes(); vh_call_end(); mode = !mode; VH_COUNT("mode_switches", 1);
            if (log.n < 2500) sb_printf(&log, "\"swapModes\"");
        } else {
            int dec = (int)vh_below(r, 2), inplace = (int)vh_below(r, 3) == 0;
            vh_rand_bytes(r, in, ci.bb);
            c_expected(ci, key, tweak, ci.mantis ? mode : dec, in, e1);
            model_expected(ci, key, tweak, ci.mantis ? mode : dec, in, e2);
            memcpy(out, in, ci.bb);
            vh_call_begin(dec ? "decryptBlock" : "encryptBlock");
            if (dec) bc->decryptBlock(out, inplace ? out : in); else bc->encryptBlock(out, inplace ? out : in);
            vh_call_end();
            VH_COUNT("blocks_compared", 1);
            if (log.n < 2500) { sb_printf(&log, "{\"%s\":", dec ? "decryptBlock" : "encryptBlock"); sb_hex(&log, in, ci.bb); sb_printf(&log, "}"); }
            if (memcmp(e1, e2, ci.bb)) bad = "c-library-differs-from-model";
            else if (memcmp(out, e1, ci.bb)) bad = dec ? "decryptBlock-differs-from-c-library" : "encryptBlock-differs-from-c-library";
        }
        if (bad) {
            char key_[300]; vh_sb d; sb_init(&d);
            sb_printf(&log, "]");
            sb_printf(&d, "{\"class\":\"%s\",\"op_index\":%u,\"history\":%s,\"observed\":", ci.name, i, log.p); sb_hex(&d, out, ci.bb); sb_printf(&d, ",\"expected\":"); sb_hex(&d, e1, ci.bb); sb_printf(&d, "}");
            snprintf(key_, sizeof(key_), "C19:%s:%s", ci.name, bad);
            viol(key_, idx, d.p); sb_free(&d); sb_free(&log); delete o; return;
        }
    }
    sb_printf(&log, "]");
    VH_COUNT("sequences", 1);
    { char cn[64]; snprintf(cn, sizeof(cn), "sequences_%s", ci.name); *vh_counter_ref(cn) += 1; }
    if (vh_distinct(hh) && nops > 2) VH_COUNT("distinct_nontrivial_sequences", 1);
    if (vh_want_sample()) { vh_sb s; sb_init(&s); sb_printf(&s, "{\"class\":\"%s\",\"sequence\":%s}", ci.name, log.p); vh_sample(s.p); sb_free(&s); }
    sb_free(&log);
    delete o;
}

/* csize: 0 = setCounterSize never called; 1..16 = called with that size (the caller chose an IV whose low csize bytes cannot
   overflow during the stream, so the result must still equal the C library's whole-block counter); order: before/after setIV */
template <typename T> static void ctr_run(const uint8_t *key, size_t klen, const uint8_t *iv, uint8_t *out, const uint8_t *in, const unsigned *cuts, unsigned ncuts, int inplace, bool *okret, unsigned csize, int order, const char **why)
{
    CTR<T> ctr; unsigned i, off = 0;
    *okret = ctr.setKey(key, klen) && ctr.setIV(iv, 16);
    if (!*okret) *why = "setKey-or-setIV-rejected-valid-arguments";
    if (ctr.setIV(iv, 15) || ctr.setKey(key, klen + 1)) { *okret = false; *why = "wrong-length-accepted"; }      /* wrong lengths must be rejected */
    if (ctr.keySize() != klen || ctr.ivSize() != 16) { *okret = false; *why = "keySize-or-ivSize-differs"; }
    ctr.setKey(key, ctr.keySize()); 
    if (csize && order == 0) { if (!ctr.setCounterSize(csize)) { *okret = false; *why = "setCounterSize-rejected-valid-size"; } }
    ctr.setIV(iv, 16);
    if (csize && order == 1) { if (!ctr.setCounterSize(csize)) { *okret = false; *why = "setCounterSize-rejected-valid-size"; } }
    if (ctr.setCounterSize(0) || ctr.setCounterSize(17) || ctr.setCounterSize((size_t)-1)) { *okret = false; *why = "setCounterSize-accepted-invalid-size"; }
    for (i = 0; i < ncuts; ++i) {
        if (inplace) { memcpy(out + off, in + off, cuts[i]); if (i & 1) ctr.decrypt(out + off, out + off, cuts[i]); else ctr.encrypt(out + off, out + off, cuts[i]); }
        else if (i & 1) ctr.decrypt(out + off, in + off, cuts[i]); else ctr.encrypt(out + off, in + off, cuts[i]);
        off += cuts[i];
    }
    ctr.clear();
}

static uint8_t CIN[3200000], COUT[3200000], CEXP[3200000];
static void case_ctr(uint64_t idx, vh_rng *r)
{
    int ci_i = (int)(idx % 5); const ClassInfo &ci = CLS[ci_i];
    uint8_t key[48], iv[16]; unsigned total = vh_below(r, 3) ? vh_below(r, 300) : vh_below(r, 3000), cuts[64], ncuts = 0, left; bool okret = true;
    int bigcall = (idx % 97 == 5);
    if (bigcall) { total = 1048576 + vh_below(r, 2100000); VH_COUNT("ctr_single_calls_of_1MiB_or_more", 1); }
    left = total;
    int inplace = (int)vh_below(r, 2); Skinny128CTR_t c; char k_[200]; const char *why = "";
    unsigned csize = vh_below(r, 3) ? 0 : 1 + vh_below(r, 16); int order = (int)vh_below(r, 2);
    vh_rand_bytes(r, key, 48); vh_rand_bytes(r, CIN, total > 8192 ? 8192 : total); if (total > 8192) memset(CIN + 8192, 0x3C, total - 8192);
    switch (vh_below(r, 5)) {
    case 0: memset(iv, 0xFF, 16); iv[15] = (uint8_t)(0xFF - vh_below(r, 6)); break;
    case 1: memset(iv, 0, 16); { unsigned k = 1 + vh_below(r, 16); memset(iv + 16 - k, 0xFF, k); iv[15] = (uint8_t)(0xFF - vh_below(r, 4)); } break;
    case 2: vh_fill_msb_boundary(r, iv, 16); break;
    default: vh_rand_bytes(r, iv, 16); break;
    }
    if (csize) {   /* keep the low csize bytes of the IV from overflowing: then "only the last csize bytes count" cannot be told from the C library's whole-block counter */
        if (csize < 3 && total > 1500) csize = 3 + vh_below(r, 14);
        if (csize == 1) iv[15] = (uint8_t)vh_below(r, 150); else iv[16 - csize] &= 0x7F;
        VH_COUNT("ctr_sequences_with_setCounterSize", 1);
    }
    if (bigcall) { unsigned pre = vh_below(r, 40); cuts[ncuts++] = pre; left -= pre; cuts[ncuts++] = left - 7; left = 7; }
    while (left && ncuts < 63) { unsigned n = 1 + vh_below(r, left < 90 ? left : 90); if (!vh_below(r, 5)) n = 0; cuts[ncuts++] = n; left -= n; }
    cuts[ncuts++] = left;
    snprintf(k_, sizeof(k_), "C19:CTR<%s>", ci.name); vh_set_crash_key(k_);
    memset(COUT, 0xEE, total);
    vh_call_begin("CTR<T>");
    switch (ci_i) {
    case 0: ctr_run<Skinny128_128>(key, ci.klen, iv, COUT, CIN, cuts, ncuts, inplace, &okret, csize, order, &why); break;
    case 1: ctr_run<Skinny128_256>(key, ci.klen, iv, COUT, CIN, cuts, ncuts, inplace, &okret, csize, order, &why); break;
    case 2: ctr_run<Skinny128_384>(key, ci.klen, iv, COUT, CIN, cuts, ncuts, inplace, &okret, csize, order, &why); break;
    case 3: ctr_run<Skinny128_256_Tweaked>(key, ci.klen, iv, COUT, CIN, cuts, ncuts, inplace, &okret, csize, order, &why); break;
    default: ctr_run<Skinny128_384_Tweaked>(key, ci.klen, iv, COUT, CIN, cuts, ncuts, inplace, &okret, csize, order, &why); break;
    }
    if (idx % 16 == 2) {   /* the CTR template only works over 16-byte blocks: an 8-byte block cipher must be refused */
        CTR<Skinny64_128> c64; CTR<Mantis8> cm; uint8_t o8[32];
        if (c64.setKey(key, 16) || cm.setKey(key, 16)) { okret = false; why = "CTR-over-8-byte-block-cipher-accepted-a-key"; }
        (void)o8; VH_COUNT("ctr_over_8_byte_block_refusals_checked", 1);
    }
    vh_call_end();
    skinny128_ctr_init(&c);
    if (ci.tweaked) skinny128_ctr_set_tweaked_key(&c, key, ci.klen); else skinny128_ctr_set_key(&c, key, ci.klen);
    skinny128_ctr_set_counter(&c, iv, 16);
    skinny128_ctr_encrypt(CEXP, CIN, total, &c);
    skinny128_ctr_cleanup(&c);
    VH_COUNT("ctr_sequences", 1); VH_COUNT("ctr_bytes_compared", total);
    if (vh_distinct(vh_hash(key, ci.klen, vh_hash(iv, 16, vh_hash(cuts, ncuts * sizeof(unsigned), VH_HASH_INIT + (uint64_t)ci_i)))) && total) VH_COUNT("distinct_nontrivial_sequences", 1);
    if (!okret || memcmp(COUT, CEXP, total)) {
        char key_[300], d[400]; unsigned k = 0; while (k < total && COUT[k] == CEXP[k]) ++k;
        snprintf(d, sizeof(d), "{\"class\":\"CTR<%s>\",\"total\":%u,\"calls\":%u,\"in_place\":%d,\"first_diff_byte\":%u,\"counter_size\":%u,\"api_ok\":%s,\"why\":\"%s\"}", ci.name, total, ncuts, inplace, k, csize, okret ? "true" : "false", why);
        snprintf(key_, sizeof(key_), "C19:CTR<%s>:%s", ci.name, okret ? "stream-differs-from-c-library" : why);
        viol(key_, idx, d);
    }
}

static void one_case(uint64_t idx)
{
    vh_rng r; char d[256];
    vh_rng_seed(&r, vh_seed, 0x19, idx);
    snprintf(d, sizeof(d), "{\"driver\":\"drv_ard\",\"prop\":\"C19\",\"seed\":%llu,\"case\":%llu,\"variant\":\"%s\"}", (unsigned long long)vh_seed, (unsigned long long)idx, vh_variant);
    vh_case_begin(idx, "C19", d);
    if (idx % 5 == 4) case_ctr(idx / 5, &r); else case_block(idx - idx / 5, &r);      /* 1 case in 5 is a CTR<T> sequence (5 is coprime to the shard count, so every shard gets its share) */
}

int main(int argc, char **argv)
{
    vh_init(argc, argv);
    if (ref_selftest()) { printf("{\"type\":\"harness_error\",\"detail\":\"ref selftest\"}\n"); return 2; }
    vh_install_fault_handler();
    if (vh_shard == 0) {
        int i; uint8_t e1[16]; uint8_t zt[16] = {0};
        for (i = 0; i < 11; ++i) {
            const ClassInfo &ci = CLS[i];
            c_expected(ci, EARLY_KEY, ci.tweaked ? EARLY_TW : zt, 0, EARLY_IN, e1);
            VH_COUNT("classes_used_before_main", 1);
            if (!g_early.ok[i] || memcmp(g_early.out[i], e1, ci.bb)) {
                char key_[200], d[200]; snprintf(key_, sizeof(key_), "C19:%s:used-from-a-file-scope-constructor:differs-from-c-library", ci.name);
                snprintf(d, sizeof(d), "{\"class\":\"%s\",\"when\":\"constructor of a file-scope object of the program (before main)\"}", ci.name); viol(key_, 0, d);
            }
            {
                int cp;
                switch (i) {
                case 0: cp = copy_probe<Skinny128_128>(EARLY_KEY, ci.klen, EARLY_IN, ci.bb, e1); break; case 1: cp = copy_probe<Skinny128_256>(EARLY_KEY, ci.klen, EARLY_IN, ci.bb, e1); break;
                case 2: cp = copy_probe<Skinny128_384>(EARLY_KEY, ci.klen, EARLY_IN, ci.bb, e1); break; case 5: cp = copy_probe<Skinny64_64>(EARLY_KEY, ci.klen, EARLY_IN, ci.bb, e1); break;
                case 6: cp = copy_probe<Skinny64_128>(EARLY_KEY, ci.klen, EARLY_IN, ci.bb, e1); break; case 7: cp = copy_probe<Skinny64_192>(EARLY_KEY, ci.klen, EARLY_IN, ci.bb, e1); break;
                default: cp = -2; break;        /* tweakable classes and Mantis8: expected value above includes a tweak; skipped */
                }
                if (cp >= 0) VH_COUNT("classes_copy_probed", 1);
                if (cp > 0 && (cp & 2)) { char key_[200], d[200]; snprintf(key_, sizeof(key_), "C19:%s:original-damaged-by-the-death-of-a-copy", ci.name); snprintf(d, sizeof(d), "{\"class\":\"%s\",\"probe\":%d}", ci.name, cp); viol(key_, 0, d); }
            }
        }
    }
    vh_run(one_case);
    vh_finish();
    return 0;
}
