/* Independent reference models of SKINNY and MANTIS, written from the
 * specifications in the opposite style to the library: one cell per array
 * element, table S-boxes, explicit permutation tables, tweakey arrays updated
 * round by round, no precomputed schedule.  Used only as oracles. */
#ifndef VERIF_REF_H
#define VERIF_REF_H
#include <stdint.h>
#include <stddef.h>

/* SKINNY: cell_bits is 4 (64-bit block) or 8 (128-bit block).
 * tk holds ntk (1..3) tweakey words of one block each (TK1 first).
 * tweaked != 0 xors the tweak-domain constant 0x2 into cell 2 each round.
 * rounds = number of rounds. */
void ref_skinny_encrypt(unsigned cell_bits, unsigned ntk, unsigned rounds,
                        int tweaked, const uint8_t *tk, const uint8_t *in,
                        uint8_t *out);
void ref_skinny_decrypt(unsigned cell_bits, unsigned ntk, unsigned rounds,
                        int tweaked, const uint8_t *tk, const uint8_t *in,
                        uint8_t *out);
/* rounds per spec for block bytes (8/16) and ntk */
unsigned ref_skinny_rounds(unsigned block_bytes, unsigned ntk);

/* Plain-key API semantics: key of key_len bytes (block..3*block), padded with
 * zeros to the next primary size. */
void ref_skinny_key_crypt(unsigned block_bytes, const uint8_t *key,
                          unsigned key_len, int decrypt, const uint8_t *in,
                          uint8_t *out);
/* Tweaked-key semantics: TK1 = tweak (tweak_len bytes zero padded, NULL=0),
 * domain bit set, TK2/TK3 = key (block..2*block bytes zero padded). */
void ref_skinny_tweaked_crypt(unsigned block_bytes, const uint8_t *key,
                              unsigned key_len, const uint8_t *tweak,
                              unsigned tweak_len, int decrypt,
                              const uint8_t *in, uint8_t *out);

/* MANTIS-r: key 16 bytes, tweak 8 bytes (NULL = zero), r in 5..8 */
void ref_mantis_encrypt(unsigned r, const uint8_t *key, const uint8_t *tweak,
                        const uint8_t *in, uint8_t *out);
void ref_mantis_decrypt(unsigned r, const uint8_t *key, const uint8_t *tweak,
                        const uint8_t *in, uint8_t *out);

/* big-endian counter add on a byte array of n bytes */
void ref_ctr_add(uint8_t *ctr, unsigned n, uint64_t inc);

/* S-box input coverage tally (filled by the encrypt/decrypt models when
 * enabled): [direction][cell][value] for the first round evaluated. */
extern int ref_tally_enabled;
extern uint32_t ref_tally8[16][256];
extern uint32_t ref_tally4[16][16];

/* table accessor for the self test */
uint8_t ref_skinny_sbox8(uint8_t x);

/* Self test on the published vectors: returns 0 if all pass. */
int ref_selftest(void);

#endif
