/* Driver for C13: back-end selection.  Every CPUID executed by the process is
 * trapped (arch_prctl ARCH_SET_CPUID), logged with the register values at the
 * instruction, and answered from an emulated CPU model derived from the host;
 * the six init functions are called through an assembly trampoline that loads
 * the caller-saved registers with garbage and after painting the stack.  The
 * selected back end is read from the handle and compared with what the served
 * CPUID table + XCR0 + the build's compiled-in back ends imply. */
#define _GNU_SOURCE
#include "hist.h"
#include <string.h>
#include <stdlib.h>
#include <signal.h>
#include <ucontext.h>
#include <unistd.h>
#include <sys/syscall.h>
#include <cpuid.h>

#ifndef ARCH_GET_CPUID
#define ARCH_GET_CPUID 0x1011
#define ARCH_SET_CPUID 0x1012
#endif

enum { M_HOST = 0, M_NO_AVX2, M_NO_OSXSAVE, M_NO_AVX, M_MAXLEAF6, M_NO_SSE2, M_XCR0_NO_YMM, M_XCR0_X87_ONLY, M_SSE2_ONLY, M_LEAF7_EAX0, M_OTHER_VENDOR, M_VENDOR_HYGON, M_VENDOR_ZHAOXIN, M_N };
static const char *const mname[M_N] = {"host-truth", "no-AVX2-bit", "AVX2-bit-without-OSXSAVE", "AVX2-bit-without-AVX-bit", "max-leaf-6-intel-semantics-adversarial-EBX", "no-SSE2",
                                        "OS-did-not-enable-YMM-state(XCR0=3,single-stepped)", "OS-enabled-x87-state-only(XCR0=1,single-stepped)", "SSE2-only-cpu(K8-class:max-leaf-1,no-SSE3/SSSE3/SSE4/POPCNT/XSAVE/AVX)",
                                        "AVX2-cpu-whose-leaf7-has-only-sub-leaf-0(EAX=0)", "same-features-other-vendor-string-and-max-leaf-0x20",
                                        "same-features-vendor-HygonGenuine", "same-features-vendor-Shanghai(Zhaoxin)"};

static volatile int g_model = M_HOST;
static volatile int g_trapping = 0;
typedef struct { uint32_t leaf, ecx; } cpuid_ev;
static cpuid_ev g_ev[256]; static volatile int g_nev;
static volatile uint64_t g_total_events;
static int build_has128 = 1, build_has256 = 1;

static void real_cpuid(uint32_t leaf, uint32_t sub, uint32_t o[4])
{
    __asm__ volatile("cpuid" : "=a"(o[0]), "=b"(o[1]), "=c"(o[2]), "=d"(o[3]) : "a"(leaf), "c"(sub));
}
static void model_cpuid(int model, uint32_t leaf, uint32_t sub, uint32_t o[4])
{
    /* executed with trapping off */
    real_cpuid(leaf, sub, o);
    switch (model) {
    case M_NO_AVX2: if (leaf == 7 && sub == 0) o[1] &= ~(1u << 5); break;
    case M_NO_OSXSAVE: if (leaf == 1) o[2] &= ~(1u << 27); break;
    case M_NO_AVX: if (leaf == 1) o[2] &= ~(1u << 28); break;
    case M_MAXLEAF6:
        if (leaf == 0) o[0] = 6;
        else if (leaf > 6 && leaf < 0x40000000u) { real_cpuid(6, sub, o); o[1] |= (1u << 5); }   /* Intel: data of the highest basic leaf; EBX adversarial */
        break;
    case M_LEAF7_EAX0:         /* Haswell..Ice Lake, Zen 1-3: leaf 7 reports no further sub-leaves; sub-leaves above 0 read as zero */
        if (leaf == 7) { if (sub == 0) o[0] = 0; else o[0] = o[1] = o[2] = o[3] = 0; }
        break;
    case M_OTHER_VENDOR:       /* feature bits as the host, but another vendor string and a larger maximum basic leaf */
        if (leaf == 0) { o[0] = 0x20; if (o[1] == 0x756e6547) { o[1] = 0x68747541; o[3] = 0x69746e65; o[2] = 0x444d4163; } else { o[1] = 0x756e6547; o[3] = 0x49656e69; o[2] = 0x6c65746e; } }
        break;
    case M_VENDOR_HYGON:       /* "HygonGenuine" */
        if (leaf == 0) { o[1] = 0x6f677948; o[3] = 0x6e65476e; o[2] = 0x656e6975; }
        break;
    case M_VENDOR_ZHAOXIN:     /* "  Shanghai  " */
        if (leaf == 0) { o[1] = 0x68532020; o[3] = 0x68676e61; o[2] = 0x20206961; }
        break;
    case M_SSE2_ONLY:
        if (leaf == 0) o[0] = 1;
        else if (leaf == 1) o[2] &= ~((1u << 0) | (1u << 1) | (1u << 9) | (1u << 12) | (1u << 19) | (1u << 20) | (1u << 22) | (1u << 23) | (1u << 25) | (1u << 26) | (1u << 27) | (1u << 28) | (1u << 29));
        else if (leaf < 0x40000000u) o[0] = o[1] = o[2] = o[3] = 0;          /* AMD semantics above the highest leaf: zeros */
        break;
    case M_NO_SSE2:
        if (leaf == 1) { o[3] &= ~(1u << 26); o[2] &= ~((1u << 28) | (1u << 27)); }
        if (leaf == 7) o[1] &= ~(1u << 5);
        break;
    default: break;
    }
}
static uint32_t host_xcr0(void)
{
    uint32_t o[4], lo, hi;
    real_cpuid(1, 0, o);
    if (!(o[2] & (1u << 27))) return 0;
    __asm__ volatile(".byte 0x0f, 0x01, 0xd0" : "=a"(lo), "=d"(hi) : "c"(0));
    return lo;
}
/* what the served table implies (evaluated with trapping off) */
/* XCR0 as the model's operating system presents it (XGETBV is emulated by single-stepping for the XCR0 models) */
static uint32_t model_xcr0(int model) { return model == M_XCR0_NO_YMM ? 3u : (model == M_XCR0_X87_ONLY ? 1u : host_xcr0()); }

static int expected_backend(int model, int is_s128)
{
    uint32_t l0[4], l1[4], l7[4];
    int sse2, avx2;
    model_cpuid(model, 0, 0, l0); model_cpuid(model, 1, 0, l1);
    sse2 = (l1[3] >> 26) & 1;
    avx2 = 0;
    if (l0[0] >= 7) {
        model_cpuid(model, 7, 0, l7);
        avx2 = ((l7[1] >> 5) & 1) && ((l1[2] >> 27) & 1) && ((l1[2] >> 28) & 1) && ((model_xcr0(model) & 6) == 6);
    }
    if (is_s128 && avx2 && sse2 && build_has256) return BE_VEC256;
    if (sse2 && build_has128) return BE_VEC128;
    return BE_GENERIC;
}

static void segv_handler(int sig, siginfo_t *si, void *ucv)
{
    ucontext_t *uc = ucv;
    const uint8_t *ip = (const uint8_t *)uc->uc_mcontext.gregs[REG_RIP];
    (void)si;
    if (g_trapping && ip[0] == 0x0F && ip[1] == 0xA2) {
        uint32_t leaf = (uint32_t)uc->uc_mcontext.gregs[REG_RAX], sub = (uint32_t)uc->uc_mcontext.gregs[REG_RCX], o[4];
        if (g_nev < 256) { g_ev[g_nev].leaf = leaf; g_ev[g_nev].ecx = sub; g_nev++; }
        g_total_events++;
        syscall(SYS_arch_prctl, ARCH_SET_CPUID, 1UL);
        model_cpuid(g_model, leaf, sub, o);
        syscall(SYS_arch_prctl, ARCH_SET_CPUID, 0UL);
        uc->uc_mcontext.gregs[REG_RAX] = o[0]; uc->uc_mcontext.gregs[REG_RBX] = o[1];
        uc->uc_mcontext.gregs[REG_RCX] = o[2]; uc->uc_mcontext.gregs[REG_RDX] = o[3];
        uc->uc_mcontext.gregs[REG_RIP] += 2;
        return;
    }
    signal(sig, SIG_DFL);
    raise(sig);
}
/* ---- single-step monitor (EFLAGS.TF): emulates XGETBV for the XCR0 models and watches for VEX/EVEX-encoded
 * instructions executed by the library while the emulated CPU/OS cannot execute them ---- */
extern char __executable_start[], etext[], _end[];
static volatile int g_step_xcr0_emulate, g_step_forbid_vex, g_step_forbid_post_sse2;
static volatile uint64_t g_post_sse2_count, g_post_sse2_first;
/* does the instruction at ip belong to an extension newer than SSE2 (legacy encodings: SSE3, SSSE3, SSE4.x, AES-NI, SHA,
   POPCNT, MOVBE, ...; VEX/EVEX are handled separately)?  Every instruction of opcode maps 0F 38 and 0F 3A is. */
static int post_sse2_insn(const uint8_t *ip)
{
    int i = 0, p66 = 0, pf2 = 0, pf3 = 0; uint8_t op;
    for (; i < 8; ++i) {
        uint8_t b = ip[i];
        if (b == 0x66) p66 = 1; else if (b == 0xF2) pf2 = 1; else if (b == 0xF3) pf3 = 1;
        else if (b == 0x2E || b == 0x36 || b == 0x3E || b == 0x26 || b == 0x64 || b == 0x65 || b == 0x67 || b == 0xF0) { }
        else break;
    }
    if ((ip[i] & 0xF0) == 0x40) ++i;                 /* REX */
    if (ip[i] != 0x0F) return 0;
    op = ip[i + 1];
    if (op == 0x38 || op == 0x3A) return 1;
    if (pf3 && op == 0xB8) return 1;                                                   /* POPCNT */
    if (pf2 && (op == 0x12 || op == 0x7C || op == 0x7D || op == 0xD0 || op == 0xF0)) return 1;   /* SSE3 */
    if (p66 && !pf2 && !pf3 && (op == 0x7C || op == 0x7D || op == 0xD0)) return 1;
    if (pf3 && (op == 0x12 || op == 0x16)) return 1;
    return 0;
}
static volatile uint32_t g_step_xcr0;
static volatile uint64_t g_steps, g_xgetbv_events, g_vex_count, g_vex_first;
static void trap_handler(int sig, siginfo_t *si, void *ucv)
{
    ucontext_t *uc = ucv; const uint8_t *ip = (const uint8_t *)uc->uc_mcontext.gregs[REG_RIP];
    (void)sig; (void)si;
    g_steps++;
    if (ip[0] == 0x0F && ip[1] == 0x01 && ip[2] == 0xD0) {
        g_xgetbv_events++;
        if (g_step_xcr0_emulate) { uc->uc_mcontext.gregs[REG_RAX] = g_step_xcr0; uc->uc_mcontext.gregs[REG_RDX] = 0; uc->uc_mcontext.gregs[REG_RIP] += 3; }
    } else if (g_step_forbid_vex && (const char *)ip >= __executable_start && (const char *)ip < etext && (ip[0] == 0xC4 || ip[0] == 0xC5 || ip[0] == 0x62)) {
        if (!g_vex_count) g_vex_first = (uint64_t)(ip - (const uint8_t *)__executable_start);
        g_vex_count++;
    } else if (g_step_forbid_post_sse2 && (const char *)ip >= __executable_start && (const char *)ip < etext && post_sse2_insn(ip)) {
        if (!g_post_sse2_count) g_post_sse2_first = (uint64_t)(ip - (const uint8_t *)__executable_start);
        g_post_sse2_count++;
    }
}
static void install_trap(void)
{
    struct sigaction sa; memset(&sa, 0, sizeof(sa));
    sa.sa_sigaction = trap_handler; sa.sa_flags = SA_SIGINFO;
    sigaction(SIGTRAP, &sa, NULL);
}
#define STEP_ON()  __asm__ volatile("pushfq\n\torq $0x100, (%%rsp)\n\tpopfq" ::: "memory", "cc")
#define STEP_OFF() __asm__ volatile("pushfq\n\tandq $~0x100, (%%rsp)\n\tpopfq" ::: "memory", "cc")

static int arm(void)
{
    struct sigaction sa;
    memset(&sa, 0, sizeof(sa));
    sa.sa_sigaction = segv_handler; sa.sa_flags = SA_SIGINFO | SA_NODEFER;
    sigaction(SIGSEGV, &sa, NULL);
    if (syscall(SYS_arch_prctl, ARCH_SET_CPUID, 0UL) != 0) return 0;
    g_trapping = 1;
    return 1;
}
static void disarm(void) { if (g_trapping) { syscall(SYS_arch_prctl, ARCH_SET_CPUID, 1UL); g_trapping = 0; } }

/* int vh_tramp(int (*fn)(void *), void *arg, const uint64_t g[8]):
 * calls fn(arg) with rcx, rdx, rsi, r8..r11, rbx, rax loaded from g (any value is a legal calling context) */
int vh_tramp(int (*fn)(void *), void *arg, const uint64_t *g);
__asm__(
    ".text\n.globl vh_tramp\n.type vh_tramp,@function\nvh_tramp:\n"
    "  push %rbx\n  push %rbp\n  sub $8, %rsp\n"
    "  mov %rdi, %rbp\n"          /* fn */
    "  mov %rsi, %rdi\n"          /* arg */
    "  mov %rdx, %r11\n"
    "  mov 0(%r11), %rcx\n  mov 16(%r11), %rsi\n  mov 24(%r11), %r8\n  mov 32(%r11), %r9\n  mov 40(%r11), %r10\n"
    "  mov 56(%r11), %rbx\n  mov 8(%r11), %rdx\n  mov 0(%r11), %rax\n  mov 48(%r11), %r11\n"
    "  call *%rbp\n"
    "  add $8, %rsp\n  pop %rbp\n  pop %rbx\n  ret\n"
    ".size vh_tramp,.-vh_tramp\n");

static int init_ctr(void *h) { return 0; }
typedef int (*initfn)(void *);
static const struct { const char *name; int cipher, par; initfn fn; } INITS[6] = {
    {"skinny128_ctr_init", CIPH_S128, 0, (initfn)skinny128_ctr_init}, {"skinny64_ctr_init", CIPH_S64, 0, (initfn)skinny64_ctr_init},
    {"mantis_ctr_init", CIPH_MANTIS, 0, (initfn)mantis_ctr_init}, {"skinny128_parallel_ecb_init", CIPH_S128, 1, (initfn)skinny128_parallel_ecb_init},
    {"skinny64_parallel_ecb_init", CIPH_S64, 1, (initfn)skinny64_parallel_ecb_init}, {"mantis_parallel_ecb_init", CIPH_MANTIS, 1, (initfn)mantis_parallel_ecb_init}};

static void viol(const char *key, uint64_t idx, const char *detail)
{
    vh_sb rp; sb_init(&rp);
    sb_printf(&rp, "{\"driver\":\"drv_cpuid\",\"prop\":\"C13\",\"mode\":\"c13\",\"seed\":%llu,\"case\":%llu,\"variant\":\"%s\",\"case_detail\":%s}",
              (unsigned long long)vh_seed, (unsigned long long)idx, vh_variant, detail);
    vh_violation(key, detail, rp.p);
    sb_free(&rp);
}

/* behavioural check that parallel_size matches what the selected back end really processes */
static const char *parallel_size_behaviour(const vh_cipher *c, vh_handle *h, vh_rng *r)
{
    size_t ps = h->parallel_size, nb, b; uint8_t key[16], *in, *out, *tw; static uint8_t exp_[4096];
    Skinny128Key_t k128; Skinny64Key_t k64; MantisKey_t km; long w;
    if (ps == 0 || ps % c->bb) return "parallel-size-not-positive-multiple-of-block";
    if (ps > 2048) return "parallel-size-implausible";
    vh_rand_bytes(r, key, 16);
    if (!c->par_set_key(h, key, 16, 6, MANTIS_ENCRYPT)) return "set_key-failed";
    in = vh_gback(1, 2 * ps, -1); out = vh_gback(2, 2 * ps, -1); tw = vh_gback(3, 2 * ps, -1);
    vh_rand_bytes(r, in, 2 * ps); vh_rand_bytes(r, tw, 2 * ps); memset(out, 0xEE, 2 * ps);
    if (!c->par_encrypt(out, in, tw, ps, h)) return "encrypt-of-parallel_size-bytes-failed";
    nb = ps / c->bb;
    if (c->id == CIPH_S128) { skinny128_set_key(&k128, key, 16); for (b = 0; b < nb; ++b) skinny128_ecb_encrypt(exp_ + 16 * b, in + 16 * b, &k128); }
    else if (c->id == CIPH_S64) { skinny64_set_key(&k64, key, 16); for (b = 0; b < nb; ++b) skinny64_ecb_encrypt(exp_ + 8 * b, in + 8 * b, &k64); }
    else { mantis_set_key(&km, key, 16, 6, MANTIS_ENCRYPT); for (b = 0; b < nb; ++b) mantis_ecb_crypt_tweaked(exp_ + 8 * b, in + 8 * b, tw + 8 * b, &km); }
    if (memcmp(out, exp_, ps)) return "one-batch-of-parallel_size-bytes-processed-wrongly";
    for (b = ps; b < 2 * ps; ++b) if (out[b] != 0xEE) return "wrote-beyond-parallel_size-bytes";
    if (vh_gcheck(1, &w) || vh_gcheck(2, &w) || vh_gcheck(3, &w)) return "canary-damaged";
    /* exact-extent buffers of exactly parallel_size bytes */
    in = vh_gback(1, ps, -1); out = vh_gback(2, ps, -1); tw = vh_gback(3, ps, -1);
    vh_rand_bytes(r, in, ps); vh_rand_bytes(r, tw, ps);
    if (!c->par_encrypt(out, in, tw, ps, h)) return "encrypt-failed";
    return NULL;
}

static void one_case(uint64_t idx)
{
    vh_rng r; int fi = (int)(idx % 6), model = (int)((idx / 6) % M_N), trapped = (idx / 36) % 5 != 4, rep, first = -2;
    const vh_cipher *c = &vh_ciphers[INITS[fi].cipher];
    uint64_t g[8]; char d[600], key[300]; int exp_be;
    static const uint64_t small[] = {0, 1, 2, 3, 7, 0x100, 0xdeadbeef, 0xffffffffffffffffULL, 0x80000000, 5};
    uint32_t ecx7_ref[8]; int ecx7_nref = -1, ecx7_varies = 0;
    vh_rng_seed(&r, vh_seed, 0x13, idx);
    snprintf(d, sizeof(d), "{\"driver\":\"drv_cpuid\",\"prop\":\"C13\",\"seed\":%llu,\"case\":%llu,\"variant\":\"%s\"}", (unsigned long long)vh_seed, (unsigned long long)idx, vh_variant);
    if (!trapped) model = M_HOST;
    int stepped = (model == M_XCR0_NO_YMM || model == M_XCR0_X87_ONLY);
    int vex_watch = idx < 6 * M_N;                /* single-stepping costs ~3 us per instruction: only the first sweeps */
    int no_osxsave = (model == M_NO_OSXSAVE || model == M_NO_SSE2 || model == M_SSE2_ONLY);
    if (stepped && idx >= 12 * M_N) { VH_COUNT("single_step_models_skipped_after_two_sweeps", 1); return; }
    int no_avx = (model == M_NO_OSXSAVE || model == M_NO_AVX || model == M_NO_SSE2 || model == M_SSE2_ONLY || stepped);
    snprintf(key, sizeof(key), "C13:%s:%s", INITS[fi].name, mname[model]);
    vh_case_begin(idx, key, d);
    exp_be = expected_backend(model, c->id == CIPH_S128);
    g_model = model;
    if (trapped && !arm()) { printf("{\"type\":\"inconclusive\",\"reason\":\"cannot enable CPUID faulting\"}\n"); fflush(stdout); _exit(3); }
    for (rep = 0; rep < (stepped ? 3 : 24); ++rep) {
        vh_handle h; int ret, be, i, xgetbv_bad = 0; const char *bad = NULL;
        for (i = 0; i < 8; ++i) g[i] = (rep < 10) ? small[(rep + i) % 10] : vh_rand(&r);
        if (rep < 10) g[0] = small[rep];
        memset(&h, vh_below(&r, 2) ? 0 : 0xCC, sizeof(h));
        vh_paint_stack(rep & 1 ? 0xFF : -1, 20000);
        g_nev = 0;
        vh_call_begin(INITS[fi].name);
        if (stepped) { g_step_xcr0 = model_xcr0(model); g_step_xcr0_emulate = 1; g_step_forbid_vex = 1; g_vex_count = 0; STEP_ON(); ret = vh_tramp(INITS[fi].fn, &h, g); STEP_OFF(); g_step_xcr0_emulate = 0; g_step_forbid_vex = 0; VH_COUNT("single_stepped_init_calls", 1); }
        else if (trapped && no_osxsave && vex_watch && rep == 1) {
            /* CPUID.1:ECX.OSXSAVE is clear in this model: XGETBV would raise #UD on such a machine, so the probe must not execute it */
            uint64_t x0 = g_xgetbv_events;
            STEP_ON(); ret = vh_tramp(INITS[fi].fn, &h, g); STEP_OFF();
            VH_COUNT("single_stepped_init_calls", 1); VH_COUNT("init_calls_watched_for_xgetbv_without_osxsave", 1);
            if (g_xgetbv_events != x0) xgetbv_bad = 1;
        }
        else ret = vh_tramp(INITS[fi].fn, &h, g);
        vh_call_end();
        VH_COUNT("init_calls", 1);
        VH_COUNT("cpuid_events_during_init", g_nev);
        {   /* the sequence of sub-leaf register values used for leaf 7 must not depend on the calling context */
            uint32_t seq[8]; int ns = 0;
            for (i = 0; i < g_nev; ++i) if (g_ev[i].leaf == 7 && ns < 8) seq[ns++] = g_ev[i].ecx;
            if (ecx7_nref < 0) { ecx7_nref = ns; memcpy(ecx7_ref, seq, sizeof(seq)); }
            else if (ns != ecx7_nref || memcmp(seq, ecx7_ref, (size_t)ns * 4)) ecx7_varies = 1;
        }
        for (i = 0; i < g_nev; ++i) {
            char cn[48]; snprintf(cn, sizeof(cn), "cpuid_leaf_%u_queries", g_ev[i].leaf > 15 ? 99 : g_ev[i].leaf); *vh_counter_ref(cn) += 1;
            if (g_ev[i].leaf == 7) {
                if (g_ev[i].ecx != 0) VH_COUNT("cpuid_leaf7_with_nonzero_subleaf_register", 1);
                if ((uint64_t)g_ev[i].ecx == (g[0] & 0xffffffffu) && g[0] > 3) bad = "cpuid-leaf7-subleaf-register-is-callers-garbage";
            }
        }
        if (!ret) bad = "init-failed";
        if (xgetbv_bad) bad = "XGETBV-executed-although-OSXSAVE-is-clear(would-raise-#UD)";
        if (ret && h.vtable && !((const char *)h.vtable >= __executable_start && (const char *)h.vtable < _end)) {
            /* the handle's table pointer is not an object of this executable: init left garbage in it */
            bad = "handle-vtable-is-not-a-library-table-after-init"; be = -1;
        } else
        be = ret ? (INITS[fi].par ? c->par_backend(&h) : c->ctr_backend(&h)) : -1;
        if (!bad && ret && (be < 0 || (be == BE_VEC256 && rep == 2 && vex_watch)) && exp_be == BE_VEC256) {
            /* behavioural identification (needs no internal symbol): the 256-bit back end is the only code in the library that executes
               AVX-encoded instructions, so a short use of the object is single-stepped and VEX-encoded instructions are counted */
            uint8_t kb[16] = {1}, buf[600], tw[600]; memset(buf, 3, sizeof(buf)); memset(tw, 5, sizeof(tw));
            g_step_forbid_vex = 1; g_vex_count = 0;
            STEP_ON();
            if (INITS[fi].par) { c->par_set_key(&h, kb, 16, 6, MANTIS_ENCRYPT); c->par_encrypt(buf, buf, tw, 32 * c->bb, &h); }
            else { c->ctr_set_key(&h, kb, 16, 6); c->ctr_encrypt(buf, buf, 520, &h); }
            STEP_OFF();
            g_step_forbid_vex = 0; VH_COUNT("objects_identified_by_the_instructions_they_execute", 1);
            if (!g_vex_count) bad = "256-bit-back-end-expected-but-the-object-executes-no-AVX-encoded-instruction";
            else if (be < 0) be = BE_VEC256;
            g_vex_count = 0;
        }
        if (!bad && be < 0) { disarm(); printf("{\"type\":\"inconclusive\",\"reason\":\"cannot identify the selected back end from the handle\"}\n"); fflush(stdout); _exit(3); }
        if (!bad && be != exp_be) bad = be > exp_be ? "selected-back-end-above-what-cpu-and-os-support" : "selected-back-end-narrower-than-available";
        if (!bad && first == -2) first = be;
        if (!bad && be != first) bad = "selection-differs-between-calls-in-one-process";
        if (!bad && INITS[fi].par && rep % 6 == 0) { bad = parallel_size_behaviour(c, &h, &r); VH_COUNT("parallel_size_behaviour_checks", 1); }
        if (!bad && INITS[fi].par) {
            size_t want = (be == BE_VEC256) ? 8u * c->bb : 0;
            if (want && h.parallel_size != want) bad = "parallel_size-does-not-match-256-bit-back-end";
        }
        if (!bad && ret && no_avx && trapped && rep == 1 && vex_watch) {
            /* the emulated CPU/OS cannot execute AVX: single-step a whole life cycle on the object and make sure the library
               (code in this executable, libc excluded) executes no VEX/EVEX-encoded instruction */
            uint8_t kb[16], buf[300], tw[300]; vh_rand_bytes(&r, kb, 16); vh_rand_bytes(&r, buf, 300); vh_rand_bytes(&r, tw, 300);
            g_step_xcr0 = model_xcr0(model); g_step_xcr0_emulate = stepped; g_step_forbid_vex = 1; g_vex_count = 0;
            g_step_forbid_post_sse2 = (model == M_SSE2_ONLY); g_post_sse2_count = 0;
            vh_call_begin("life cycle under VEX watch");
            STEP_ON();
            if (INITS[fi].par) { c->par_set_key(&h, kb, 16, 6, MANTIS_ENCRYPT); c->par_encrypt(buf, buf, tw, 10 * c->bb, &h); if (c->par_decrypt) c->par_decrypt(buf, buf, tw, 9 * c->bb, &h); }
            else { c->ctr_set_key(&h, kb, 16, 6); c->ctr_set_counter(&h, kb, c->bb); c->ctr_encrypt(buf, buf, 150, &h); c->ctr_set_tweak(&h, tw, 8); c->ctr_encrypt(buf, buf, 33, &h); }
            STEP_OFF();
            vh_call_end();
            g_step_forbid_vex = 0; g_step_xcr0_emulate = 0; g_step_forbid_post_sse2 = 0;
            if (model == M_SSE2_ONLY) VH_COUNT("life_cycles_single_stepped_on_sse2_only_cpu_model", 1);
            if (g_post_sse2_count) bad = "library-executed-SSE3/SSSE3/SSE4-class-instructions-on-an-SSE2-only-cpu";
            VH_COUNT("life_cycles_single_stepped_under_vex_watch", 1); VH_COUNT("instructions_single_stepped", g_steps); g_steps = 0;
            if (g_vex_count) bad = "library-executed-AVX-encoded-instructions-on-a-cpu-or-os-without-AVX";
        }
        if (stepped && g_vex_count && !bad) bad = "library-executed-AVX-encoded-instructions-on-a-cpu-or-os-without-AVX";
        if (ret && !(bad && !strcmp(bad, "handle-vtable-is-not-a-library-table-after-init"))) { if (INITS[fi].par) c->par_cleanup(&h); else c->ctr_cleanup(&h); }
        { char cn[96]; snprintf(cn, sizeof(cn), "selected_%s_%s", be >= 0 ? vh_backend_names[be] : "none", mname[model]); *vh_counter_ref(cn) += 1; }
        if (vh_distinct(vh_hash(g, sizeof(g), VH_HASH_INIT + (uint64_t)fi * 64 + (uint64_t)model * 8 + (uint64_t)trapped))) VH_COUNT("distinct_calling_contexts", 1);
        if (bad || (vh_want_sample() && rep == 3)) {
            vh_sb s; sb_init(&s);
            sb_printf(&s, "{\"init\":\"%s\",\"cpu_model\":\"%s\",\"cpuid_trapped\":%s,\"rcx_at_call\":\"0x%llx\",\"expected\":\"%s\",\"selected\":\"%s\",\"parallel_size\":%lu,\"cpuid_events\":[",
                      INITS[fi].name, mname[model], trapped ? "true" : "false", (unsigned long long)g[0], vh_backend_names[exp_be], be >= 0 ? vh_backend_names[be] : "none", INITS[fi].par ? (unsigned long)h.parallel_size : 0ul);
            for (i = 0; i < g_nev; ++i) sb_printf(&s, "%s{\"leaf\":%u,\"ecx\":\"0x%x\"}", i ? "," : "", g_ev[i].leaf, g_ev[i].ecx);
            sb_printf(&s, "]}");
            if (bad) { snprintf(key, sizeof(key), "C13:%s:%s:%s", INITS[fi].name, trapped ? mname[model] : "real-cpuid", bad); disarm(); viol(key, idx, s.p); if (trapped) arm(); }
            else { disarm(); vh_sample(s.p); if (trapped) arm(); }
            sb_free(&s);
            if (bad) break;
        }
    }
    disarm();
    if (ecx7_varies) { snprintf(key, sizeof(key), "C13:%s:%s:cpuid-leaf7-subleaf-register-varies-with-context", INITS[fi].name, mname[model]); viol(key, idx, "{}"); }
    VH_COUNT(trapped ? "cases_with_emulated_cpu" : "cases_with_real_cpuid", 1);
}

int main(int argc, char **argv)
{
    vh_init(argc, argv);
    (void)init_ctr;
    vh_guard_init();
    install_trap();
    build_has128 = atoi(vh_getarg("has128", "1")); build_has256 = atoi(vh_getarg("has256", "1"));
    {   /* positive control of the CPUID monitor: a CPUID executed by the harness must be logged and answered by the model */
        uint32_t o[4];
        g_model = M_NO_SSE2;
        if (!arm()) { printf("{\"type\":\"inconclusive\",\"reason\":\"arch_prctl(ARCH_SET_CPUID) not available: CPUID cannot be trapped here\"}\n"); return 2; }
        g_nev = 0; real_cpuid(1, 0x1234, o);
        disarm();
        if (g_nev != 1 || g_ev[0].leaf != 1 || g_ev[0].ecx != 0x1234 || (o[3] & (1u << 26))) { printf("{\"type\":\"harness_error\",\"detail\":\"CPUID monitor positive control failed\"}\n"); return 2; }
        *vh_counter_ref("max_cpuid_monitor_positive_control") = 1;
    }
    vh_run(one_case);
    vh_finish();
    return 0;
}
