/* Driver for C09: buffer contract.  Every pointer argument of every public
 * function is placed in guard arenas (exact extent against a PROT_NONE page,
 * back or front, or at a chosen misalignment), canaries around it are
 * verified, and the result is compared with the same call made on aligned,
 * separate buffers.  Built as prod (hardware guard pages), asan (manual
 * poisoning, byte-exact right bound) and, for thorough, run under memcheck
 * (NOACCESS slack, byte-exact both sides). */
#include "hist.h"
#include <string.h>
#include <stdlib.h>

static int maxbe[CIPH_N];
static int maxmis = 64;

static void viol(const char *key, uint64_t idx, const char *detail)
{
    vh_sb rp; sb_init(&rp);
    sb_printf(&rp, "{\"driver\":\"drv_buf\",\"prop\":\"C09\",\"mode\":\"c09\",\"seed\":%llu,\"case\":%llu,\"variant\":\"%s\",\"case_detail\":%s}",
              (unsigned long long)vh_seed, (unsigned long long)idx, vh_variant, detail);
    vh_violation(key, detail, rp.p);
    sb_free(&rp);
}

/* placement code: -1 exact back, -2 exact front, 0..63 back with that misalignment, 100..163 front with misalignment */
static uint8_t *gplace(int arena, size_t n, int pc)
{
    if (pc == -1) return vh_gback(arena, n, -1);
    if (pc == -2) return vh_gfront(arena, n, -1);
    if (pc >= 100) return vh_gfront(arena, n, pc - 100);
    return vh_gback(arena, n, pc);
}
static int pick_pc(vh_rng *r)
{
    switch (vh_below(r, 6)) {
    case 0: return -1;
    case 1: return -2;
    case 2: return 100 + (int)vh_below(r, (uint32_t)maxmis);
    default: return (int)vh_below(r, (uint32_t)maxmis);
    }
}
static int canaries_ok(int n_arenas, char *what, size_t wn)
{
    int a; long w;
    for (a = 0; a < n_arenas; ++a) if (vh_gcheck(a, &w)) { snprintf(what, wn, "canary next to buffer in arena %d damaged at offset %ld from its start", a, w); return 0; }
    return 1;
}

/* ---- single-block functions ---- */
enum { SB_S128E, SB_S128D, SB_S64E, SB_S64D, SB_MC, SB_MCT, SB_N };
static const char *const sbname[SB_N] = {"skinny128_ecb_encrypt", "skinny128_ecb_decrypt", "skinny64_ecb_encrypt", "skinny64_ecb_decrypt", "mantis_ecb_crypt", "mantis_ecb_crypt_tweaked"};

static void sb_call(int f, void *out, const void *in, const void *tw, const void *ks)
{
    vh_call_begin(sbname[f]);
    switch (f) {
    case SB_S128E: skinny128_ecb_encrypt(out, in, ks); break;
    case SB_S128D: skinny128_ecb_decrypt(out, in, ks); break;
    case SB_S64E: skinny64_ecb_encrypt(out, in, ks); break;
    case SB_S64D: skinny64_ecb_decrypt(out, in, ks); break;
    case SB_MC: mantis_ecb_crypt(out, in, ks); break;
    default: mantis_ecb_crypt_tweaked(out, in, tw, ks); break;
    }
    vh_call_end();
}

static void case_single(uint64_t idx, vh_rng *r)
{
    int f = (int)(idx % SB_N);
    unsigned B = f < 2 ? 16 : 8;
    uint64_t q = idx / SB_N;
    int overlap_mode = (int)(q & 1);
    Skinny128Key_t k128; Skinny64Key_t k64; MantisKey_t km; const void *ks;
    uint8_t key[48], x[16], tw[8], ref[16], *in, *out, *twp = NULL;
    char key_[200], what[200]; int pc_in, pc_out, off = 0;
    vh_rand_bytes(r, key, 48); vh_rand_bytes(r, x, 16); vh_rand_bytes(r, tw, 8);
    if (f < 2) { skinny128_set_key(&k128, key, 16 * (1 + vh_below(r, 3))); ks = &k128; }
    else if (f < 4) { skinny64_set_key(&k64, key, 8 * (1 + vh_below(r, 3))); ks = &k64; }
    else { mantis_set_key(&km, key, 16, 5 + vh_below(r, 4), (int)vh_below(r, 2)); mantis_set_tweak(&km, key + 16, 8); ks = &km; }
    { uint8_t ain[16] __attribute__((aligned(32))), aout[16] __attribute__((aligned(32))), atw[8] __attribute__((aligned(32)));
      memcpy(ain, x, B); memcpy(atw, tw, 8); sb_call(f, aout, ain, atw, ks); memcpy(ref, aout, B); }
    pc_in = pick_pc(r); pc_out = pick_pc(r);
    snprintf(key_, sizeof(key_), "C09:%s", sbname[f]); vh_set_crash_key(key_);
    { int cfg[5] = {f, pc_in, overlap_mode ? 0 : pc_out, overlap_mode, overlap_mode ? (int)((q >> 1) % (2 * B - 1)) : 0}; if (vh_distinct(vh_hash(cfg, sizeof(cfg), VH_HASH_INIT))) VH_COUNT("distinct_placement_configurations", 1); }
    if (overlap_mode) {
        /* input and output overlap by every offset -(B-1)..+(B-1) (0 = same buffer) */
        unsigned span; uint8_t *base;
        off = (int)((q >> 1) % (2 * B - 1)) - (int)(B - 1);
        span = B + (unsigned)(off < 0 ? -off : off);
        base = gplace(1, span, pc_in);
        in = off >= 0 ? base : base + (-off);
        out = off >= 0 ? base + off : base;
        memcpy(in, x, B);
        VH_COUNT("single_block_overlap_calls", 1);
    } else {
        in = gplace(1, B, pc_in); out = gplace(2, B, pc_out);
        memcpy(in, x, B); memset(out, 0xEE, B);
    }
    if (f == SB_MCT) { twp = gplace(3, 8, pick_pc(r)); memcpy(twp, tw, 8); vh_gprotect(3, 1); }
    if (!overlap_mode) vh_gprotect(1, 1);              /* the input (and tweak) pages are read-only during the call */
    sb_call(f, out, in, twp, ks);
    vh_gprotect(1, 0); vh_gprotect(3, 0); VH_COUNT("calls_with_read_only_input_pages", 1);
    VH_COUNT("guarded_calls", 1); VH_COUNT("single_block_calls", 1);
    what[0] = 0;
    if (memcmp(out, ref, B)) snprintf(what, sizeof(what), "result differs from the aligned non-overlapping call");
    else if (!overlap_mode && memcmp(in, x, B)) snprintf(what, sizeof(what), "input buffer modified");
    else if (twp && memcmp(twp, tw, 8)) snprintf(what, sizeof(what), "tweak buffer modified");
    else canaries_ok(4, what, sizeof(what));
    if (what[0] || vh_want_sample()) {
        vh_sb d; sb_init(&d);
        sb_printf(&d, "{\"function\":\"%s\",\"placement_in\":%d,\"placement_out\":%d,\"overlap_offset\":%s%d,\"problem\":\"%s\"}", sbname[f], pc_in, pc_out, overlap_mode ? "" : "null,\"x\":", off, what);
        if (what[0]) { char k2[300]; snprintf(k2, sizeof(k2), "C09:%s:%s", sbname[f], strstr(what, "canary") ? "wrote-outside-buffer" : (overlap_mode ? "overlap-changes-result" : "placement-changes-result")); viol(k2, idx, d.p); }
        else vh_sample(d.p);
        sb_free(&d);
    }
}

/* ---- key / tweak setting on plain schedules ---- */
static void case_keys(uint64_t idx, vh_rng *r)
{
    unsigned f = (unsigned)(idx % 8);
    static const char *const kn[8] = {"skinny128_set_key", "skinny128_set_tweaked_key", "skinny128_set_tweak", "skinny64_set_key", "skinny64_set_tweaked_key", "skinny64_set_tweak", "mantis_set_key", "mantis_set_tweak"};
    unsigned bb = f < 3 ? 16 : 8, L; uint64_t q = idx / 8;
    uint8_t src[64], blk[16], o1[16], o2[16], *kp; int pc, r1 = 1, r2 = 1; char what[200], key_[200];
    vh_rand_bytes(r, src, 64); vh_rand_bytes(r, blk, 16);
    switch (f % 3 + (f >= 6 ? 10 : 0)) {
    case 0: L = bb + (unsigned)(q % (2 * bb + 1)); break;          /* set_key: every legal length */
    case 1: L = bb + (unsigned)(q % (bb + 1)); break;              /* set_tweaked_key */
    case 2: L = 1 + (unsigned)(q % bb); break;                     /* set_tweak */
    case 10: L = 16; break;
    default: L = 8; break;
    }
    pc = pick_pc(r);
    snprintf(key_, sizeof(key_), "C09:%s", kn[f]); vh_set_crash_key(key_);
    kp = gplace(0, L, pc); memcpy(kp, src, L);
    { int cfg[3] = {(int)f + 100, (int)L, pc}; if (vh_distinct(vh_hash(cfg, sizeof(cfg), VH_HASH_INIT))) VH_COUNT("distinct_placement_configurations", 1); }
    memset(o1, 0, 16); memset(o2, 0, 16);
    vh_gprotect(0, 1); VH_COUNT("calls_with_read_only_input_pages", 1);
    vh_call_begin(kn[f]);
    if (f < 3) {
        Skinny128TweakedKey_t a, b;
        skinny128_set_tweaked_key(&a, src + 32, 32); skinny128_set_tweaked_key(&b, src + 32, 32);
        if (f == 0) { r1 = skinny128_set_key(&a.ks, kp, L); r2 = skinny128_set_key(&b.ks, src, L); }
        else if (f == 1) { r1 = skinny128_set_tweaked_key(&a, kp, L); r2 = skinny128_set_tweaked_key(&b, src, L); }
        else { r1 = skinny128_set_tweak(&a, kp, L); r2 = skinny128_set_tweak(&b, src, L); }
        skinny128_ecb_encrypt(o1, blk, &a.ks); skinny128_ecb_encrypt(o2, blk, &b.ks);
    } else if (f < 6) {
        Skinny64TweakedKey_t a, b;
        skinny64_set_tweaked_key(&a, src + 32, 16); skinny64_set_tweaked_key(&b, src + 32, 16);
        if (f == 3) { r1 = skinny64_set_key(&a.ks, kp, L); r2 = skinny64_set_key(&b.ks, src, L); }
        else if (f == 4) { r1 = skinny64_set_tweaked_key(&a, kp, L); r2 = skinny64_set_tweaked_key(&b, src, L); }
        else { r1 = skinny64_set_tweak(&a, kp, L); r2 = skinny64_set_tweak(&b, src, L); }
        skinny64_ecb_encrypt(o1, blk, &a.ks); skinny64_ecb_encrypt(o2, blk, &b.ks);
    } else {
        MantisKey_t a, b;
        mantis_set_key(&a, src + 32, 16, 6, 1); mantis_set_key(&b, src + 32, 16, 6, 1);
        if (f == 6) { r1 = mantis_set_key(&a, kp, 16, 7, 1); r2 = mantis_set_key(&b, src, 16, 7, 1); }
        else { r1 = mantis_set_tweak(&a, kp, 8); r2 = mantis_set_tweak(&b, src, 8); }
        mantis_ecb_crypt(o1, blk, &a); mantis_ecb_crypt(o2, blk, &b);
    }
    vh_call_end();
    vh_gprotect(0, 0);
    VH_COUNT("guarded_calls", 1); VH_COUNT("key_tweak_buffer_calls", 1);
    what[0] = 0;
    if (r1 != 1 || r2 != 1) snprintf(what, sizeof(what), "valid call rejected (%d,%d)", r1, r2);
    else if (memcmp(o1, o2, 16)) snprintf(what, sizeof(what), "result depends on key buffer placement");
    else if (memcmp(kp, src, L)) snprintf(what, sizeof(what), "key buffer modified");
    else canaries_ok(1, what, sizeof(what));
    if (what[0]) {
        char d[300], k2[300];
        snprintf(d, sizeof(d), "{\"function\":\"%s\",\"length\":%u,\"placement\":%d,\"problem\":\"%s\"}", kn[f], L, pc, what);
        snprintf(k2, sizeof(k2), "C09:%s:%s", kn[f], strstr(what, "canary") ? "wrote-outside-buffer" : "placement-changes-result");
        viol(k2, idx, d);
    }
}

/* exact-extent buffer of any size: [data][PROT_NONE page], data ends at the guard page */
#include <sys/mman.h>
typedef struct { uint8_t *map; size_t span; uint8_t *p; } bigbuf;
static uint8_t *big_alloc(bigbuf *b, size_t n)
{
    b->span = (n + 4095) / 4096 * 4096 + 4096;
    b->map = mmap(NULL, b->span + 4096, PROT_READ | PROT_WRITE, MAP_PRIVATE | MAP_ANONYMOUS, -1, 0);
    if (b->map == MAP_FAILED) { fprintf(stderr, "big_alloc failed\n"); exit(2); }
    mprotect(b->map + b->span, 4096, PROT_NONE);
    b->p = b->map + b->span - n;
    memset(b->map, 0xC9, b->span - n);
    return b->p;
}
static int big_check(bigbuf *b, size_t n) { size_t i, k = b->span - n; for (i = k > 512 ? k - 512 : 0; i < k; ++i) if (b->map[i] != 0xC9) return 1; return 0; }
static void big_free(bigbuf *b) { munmap(b->map, b->span + 4096); }

/* large single CTR / parallel calls (64 KiB .. 300 KiB) in exact-extent guarded buffers, in place or not,
   optionally after a partial call so that buffered keystream is pending */
static void case_big(uint64_t idx, vh_rng *r)
{
    const vh_cipher *c = &vh_ciphers[idx % CIPH_N];
    int be = (int)((idx / CIPH_N) % (uint64_t)(maxbe[c->id] + 1)), par = (int)((idx / 9) & 1), inplace = (int)((idx / 18) & 1), pre = (int)vh_below(r, 3) ? (int)(1 + vh_below(r, 200)) : 0, dec = 0, ra = 1, rb = 1;
    size_t len = 65536 + vh_below(r, 240000), q; bigbuf bi, bo, bt; uint8_t key[48], small[256], s2[256], *in, *out, *tw = NULL, *ref, *src;
    vh_handle A, Bh; char what[200], key_[200];
    if (par) { len = len / c->bb * c->bb; pre = 0; dec = c->par_decrypt && vh_below(r, 2); }
    vh_rand_bytes(r, key, 48); vh_rand_bytes(r, small, sizeof(small));
    if (!vh_below(r, 2)) vh_fill_msb_boundary(r, small, c->bb);
    src = malloc(len * 2 + 16); ref = malloc(len + 16);
    for (q = 0; q < 2 * len; ++q) src[q] = (uint8_t)(q * 131 + (q >> 9) + small[q & 255]);
    memset(&A, 0, sizeof(A)); memset(&Bh, 0, sizeof(Bh));
    vh_set_cap(be);
    snprintf(key_, sizeof(key_), "C09:%s_%s:%s:large-call", c->name, par ? "parallel" : "ctr", vh_backend_names[be]); vh_set_crash_key(key_);
    in = big_alloc(&bi, len); memcpy(in, src, len);
    if (inplace) out = in; else { out = big_alloc(&bo, len); memset(out, 0xEE, len); }
    if (par) {
        c->par_init(&A); c->par_init(&Bh); c->par_set_key(&A, key, 16, 6, MANTIS_ENCRYPT); c->par_set_key(&Bh, key, 16, 6, MANTIS_ENCRYPT);
        if (c->id == CIPH_MANTIS) { tw = big_alloc(&bt, len); memcpy(tw, src + len, len); }
        vh_call_begin("parallel large call"); ra = (dec ? c->par_decrypt : c->par_encrypt)(out, in, tw, len, &A); vh_call_end();
        rb = (dec ? c->par_decrypt : c->par_encrypt)(ref, src, src + len, len, &Bh);
        c->par_cleanup(&A); c->par_cleanup(&Bh);
    } else {
        c->ctr_init(&A); c->ctr_init(&Bh); c->ctr_set_key(&A, key, 16, 7); c->ctr_set_key(&Bh, key, 16, 7);
        c->ctr_set_counter(&A, small, c->bb); c->ctr_set_counter(&Bh, small, c->bb);
        if (pre) { c->ctr_encrypt(s2, small, (size_t)pre, &A); c->ctr_encrypt(s2, small, (size_t)pre, &Bh); }
        vh_call_begin("ctr large call"); ra = c->ctr_encrypt(out, in, len, &A); vh_call_end();
        { size_t off = 0; while (off < len) { size_t n = len - off < 1000 ? len - off : 1000; rb &= c->ctr_encrypt(ref + off, src + off, n, &Bh); off += n; } }   /* reference: many small calls */
        /* the stream position afterwards must agree as well */
        c->ctr_encrypt(s2, small, 100, &A); c->ctr_encrypt(small, small, 100, &Bh);
        if (memcmp(s2, small, 100)) ra = -7;
        c->ctr_cleanup(&A); c->ctr_cleanup(&Bh);
    }
    VH_COUNT("guarded_calls", 1); VH_COUNT("large_guarded_calls", 1); VH_MAXC("max_guarded_call_bytes", len);
    { int cfg[6] = {c->id + 400, be, par, inplace, pre, (int)len}; if (vh_distinct(vh_hash(cfg, sizeof(cfg), VH_HASH_INIT))) VH_COUNT("distinct_placement_configurations", 1); }
    what[0] = 0;
    if (ra == -7) snprintf(what, sizeof(what), "stream position after the large call differs from the same data sent in small calls");
    else if (ra != 1 || rb != 1) snprintf(what, sizeof(what), "valid call rejected");
    else if (memcmp(out, ref, len)) { for (q = 0; q < len && out[q] == ref[q]; ++q) { } snprintf(what, sizeof(what), "%s large call differs from small separate calls at byte %lu", inplace ? "in-place" : "out-of-place", (unsigned long)q); }
    else if (!inplace && memcmp(in, src, len)) snprintf(what, sizeof(what), "input buffer modified");
    else if (big_check(&bi, len) || (!inplace && big_check(&bo, len))) snprintf(what, sizeof(what), "canary before the buffer damaged");
    if (what[0]) {
        char d[400], k2[300];
        snprintf(d, sizeof(d), "{\"object\":\"%s_%s\",\"backend\":\"%s\",\"bytes\":%lu,\"in_place\":%d,\"bytes_consumed_before\":%d,\"problem\":\"%s\"}", c->name, par ? "parallel" : "ctr", vh_backend_names[be], (unsigned long)len, inplace, pre, what);
        snprintf(k2, sizeof(k2), "C09:%s_%s:%s:%s", c->name, par ? "parallel" : "ctr", vh_backend_names[be], inplace ? "large-in-place-call-changes-result" : "large-call-changes-result");
        viol(k2, idx, d);
    }
    big_free(&bi); if (!inplace) big_free(&bo); if (tw) big_free(&bt);
    free(src); free(ref);
}

/* ---- CTR objects ---- */
static uint8_t BIG[3][4200];
static void case_ctr(uint64_t idx, vh_rng *r)
{
    const vh_cipher *c = &vh_ciphers[idx % CIPH_N];
    uint64_t q = idx / CIPH_N;
    int be = (int)(q % (uint64_t)(maxbe[c->id] + 1));
    unsigned batch = c->bb * 8, maxlen = 2 * batch + 17;
    unsigned len = (unsigned)((q / 3) % (maxlen + 1));
    unsigned klen = c->id == CIPH_MANTIS ? 16 : c->bb + vh_below(r, 2 * c->bb + 1), tlen = c->id == CIPH_MANTIS ? 8 : 1 + vh_below(r, c->bb), clen = vh_below(r, c->bb + 1);
    int tweaked = c->has_tkey && vh_below(r, 2), inplace = (int)vh_below(r, 3) == 0, pre = (int)vh_below(r, 40), pc_in, pc_out;
    uint8_t key[48], tweak[16], ctr[16], *kp, *tp, *cp, *in, *out;
    vh_handle A, Bh; int ra = 1, rb = 1; char what[200], key_[200];
    if (tweaked && klen > 2 * c->bb) klen = 2 * c->bb;
    if (!vh_below(r, 10)) len = 3000 + vh_below(r, 1000);
    vh_rand_bytes(r, key, 48); vh_rand_bytes(r, tweak, 16); vh_rand_bytes(r, ctr, 16); vh_rand_bytes(r, BIG[0], len + 64);
    if (!vh_below(r, 3)) { vh_fill_msb_boundary(r, ctr, clen); VH_COUNT("ctr_calls_with_counter_word_at_its_top_bit_or_wrap_boundary", 1); }
    memset(&A, 0, sizeof(A)); memset(&Bh, 0, sizeof(Bh));
    vh_set_cap(be);
    snprintf(key_, sizeof(key_), "C09:%s_ctr:%s", c->name, vh_backend_names[be]); vh_set_crash_key(key_);
    c->ctr_init(&A); c->ctr_init(&Bh);
    if (c->ctr_backend(&A) != be) { viol("C09:backend-not-pinned", idx, "{}"); c->ctr_cleanup(&A); c->ctr_cleanup(&Bh); return; }
    /* A: guarded buffers; B: plain aligned buffers */
    kp = gplace(0, klen, pick_pc(r)); memcpy(kp, key, klen); vh_gprotect(0, 1);
    vh_call_begin("ctr_set_key"); ra &= tweaked ? c->ctr_set_tkey(&A, kp, klen) : c->ctr_set_key(&A, kp, klen, 7); vh_call_end();
    rb &= tweaked ? c->ctr_set_tkey(&Bh, key, klen) : c->ctr_set_key(&Bh, key, klen, 7);
    if (tweaked || c->id == CIPH_MANTIS) {
        tp = gplace(3, tlen, pick_pc(r)); memcpy(tp, tweak, tlen); vh_gprotect(3, 1);
        vh_call_begin("ctr_set_tweak"); ra &= c->ctr_set_tweak(&A, tp, tlen); vh_call_end();
        rb &= c->ctr_set_tweak(&Bh, tweak, tlen);
    }
    cp = gplace(4, clen, pick_pc(r)); memcpy(cp, ctr, clen); vh_gprotect(4, 1);
    vh_call_begin("ctr_set_counter"); ra &= c->ctr_set_counter(&A, cp, clen); vh_call_end();
    rb &= c->ctr_set_counter(&Bh, ctr, clen);
    /* consume a few bytes first so the call starts at an arbitrary keystream offset */
    if (pre) { c->ctr_encrypt(BIG[2], BIG[0], (size_t)pre, &A); c->ctr_encrypt(BIG[2], BIG[0], (size_t)pre, &Bh); }
    pc_in = pick_pc(r); pc_out = pick_pc(r);
    { int cfg[8] = {c->id + 200, be, (int)len, pre, inplace, pc_in, inplace ? 0 : pc_out, (int)clen}; if (vh_distinct(vh_hash(cfg, sizeof(cfg), VH_HASH_INIT))) VH_COUNT("distinct_placement_configurations", 1); }
    if (!inplace && !vh_below(r, 5)) {
        /* adjacent, non-overlapping buffers: output immediately after (or before) the input */
        uint8_t *both = gplace(1, 2 * (size_t)len, pc_in); int after = (int)vh_below(r, 2);
        in = after ? both : both + len; out = after ? both + len : both;
        memcpy(in, BIG[0], len); memset(out, 0xEE, len);
        pc_out = -9; VH_COUNT("adjacent_buffer_calls", 1);
    } else {
    in = gplace(1, len, pc_in); memcpy(in, BIG[0], len);
    if (inplace) out = in; else { out = gplace(2, len, pc_out); memset(out, 0xEE, len); }
    }
    if (!inplace && pc_out != -9) vh_gprotect(1, 1);          /* out of place: the input pages are read-only during the call */
    vh_call_begin("ctr_encrypt"); ra &= c->ctr_encrypt(out, in, len, &A); vh_call_end();
    vh_gprotect(1, 0); vh_gprotect(0, 0); vh_gprotect(3, 0); vh_gprotect(4, 0); VH_COUNT("calls_with_read_only_input_pages", 1);
    rb &= c->ctr_encrypt(BIG[1], BIG[0], len, &Bh);
    VH_COUNT("guarded_calls", 4); VH_COUNT("ctr_calls", 1); if (inplace) VH_COUNT("ctr_in_place_calls", 1);
    what[0] = 0;
    if (ra != 1 || rb != 1) snprintf(what, sizeof(what), "valid call rejected");
    else if (memcmp(out, BIG[1], len)) snprintf(what, sizeof(what), "%s result differs from the call on aligned separate buffers", inplace ? "in-place" : "placed");
    else if (!inplace && memcmp(in, BIG[0], len)) snprintf(what, sizeof(what), "input buffer modified");
    else canaries_ok(5, what, sizeof(what));
    if (what[0] || vh_want_sample()) {
        char d[400];
        snprintf(d, sizeof(d), "{\"object\":\"%s_ctr\",\"backend\":\"%s\",\"length\":%u,\"stream_offset\":%d,\"in_place\":%d,\"placement_in\":%d,\"placement_out\":%d,\"key_len\":%u,\"tweak_len\":%u,\"counter_len\":%u,\"problem\":\"%s\"}",
                 c->name, vh_backend_names[be], len, pre, inplace, pc_in, pc_out, klen, tlen, clen, what);
        if (what[0]) { char k2[300]; snprintf(k2, sizeof(k2), "C09:%s_ctr:%s:%s", c->name, vh_backend_names[be], strstr(what, "canary") ? "wrote-outside-buffer" : (inplace ? "in-place-changes-result" : "placement-changes-result")); viol(k2, idx, d); }
        else vh_sample(d);
    }
    c->ctr_cleanup(&A); c->ctr_cleanup(&Bh);
}

/* ---- parallel ECB objects ---- */
static void case_par(uint64_t idx, vh_rng *r)
{
    const vh_cipher *c = &vh_ciphers[idx % CIPH_N];
    uint64_t q = idx / CIPH_N;
    int be = (int)(q % (uint64_t)(maxbe[c->id] + 1));
    unsigned nb = (unsigned)((q / 3) % 20), len, klen = c->id == CIPH_MANTIS ? 16 : c->bb + vh_below(r, 2 * c->bb + 1);
    int dec = c->par_decrypt && vh_below(r, 2), inplace = (int)vh_below(r, 3) == 0, pc_in, pc_out, pc_tw = 0, ra = 1, rb = 1;
    uint8_t key[48], *kp, *in, *out, *tw = NULL; vh_handle A, Bh; char what[200], key_[200];
    if (!vh_below(r, 12)) nb = 20 + vh_below(r, 200);
    len = nb * c->bb;
    vh_rand_bytes(r, key, 48); vh_rand_bytes(r, BIG[0], len); vh_rand_bytes(r, BIG[2], len);
    memset(&A, 0, sizeof(A)); memset(&Bh, 0, sizeof(Bh));
    vh_set_cap(be);
    snprintf(key_, sizeof(key_), "C09:%s_parallel:%s", c->name, vh_backend_names[be]); vh_set_crash_key(key_);
    c->par_init(&A); c->par_init(&Bh);
    if (c->par_backend(&A) != be) { viol("C09:backend-not-pinned", idx, "{}"); c->par_cleanup(&A); c->par_cleanup(&Bh); return; }
    kp = gplace(0, klen, pick_pc(r)); memcpy(kp, key, klen); vh_gprotect(0, 1);
    vh_call_begin("parallel_set_key"); ra &= c->par_set_key(&A, kp, klen, 6, MANTIS_ENCRYPT); vh_call_end();
    rb &= c->par_set_key(&Bh, key, klen, 6, MANTIS_ENCRYPT);
    pc_in = pick_pc(r); pc_out = pick_pc(r);
    if (!inplace && !vh_below(r, 5)) {
        uint8_t *both = gplace(1, 2 * (size_t)len, pc_in); int after = (int)vh_below(r, 2);
        in = after ? both : both + len; out = after ? both + len : both;
        memcpy(in, BIG[0], len); memset(out, 0xEE, len);
        pc_out = -9; VH_COUNT("adjacent_buffer_calls", 1);
    } else {
    in = gplace(1, len, pc_in); memcpy(in, BIG[0], len);
    if (inplace) out = in; else { out = gplace(2, len, pc_out); memset(out, 0xEE, len); }
    }
    if (c->id == CIPH_MANTIS) { pc_tw = pick_pc(r); tw = gplace(3, len, pc_tw); memcpy(tw, BIG[2], len); }
    { int cfg[8] = {c->id + 300, be, (int)nb, dec, inplace, pc_in, inplace ? 0 : pc_out, pc_tw}; if (vh_distinct(vh_hash(cfg, sizeof(cfg), VH_HASH_INIT))) VH_COUNT("distinct_placement_configurations", 1); }
    if (!inplace && pc_out != -9) vh_gprotect(1, 1);
    if (tw) vh_gprotect(3, 1);
    vh_call_begin(dec ? "parallel_decrypt" : "parallel_encrypt");
    ra &= (dec ? c->par_decrypt : c->par_encrypt)(out, in, tw, len, &A);
    vh_call_end();
    vh_gprotect(1, 0); vh_gprotect(3, 0); vh_gprotect(0, 0); VH_COUNT("calls_with_read_only_input_pages", 1);
    rb &= (dec ? c->par_decrypt : c->par_encrypt)(BIG[1], BIG[0], BIG[2], len, &Bh);
    VH_COUNT("guarded_calls", 2); VH_COUNT("parallel_calls", 1); if (inplace) VH_COUNT("parallel_in_place_calls", 1);
    what[0] = 0;
    if (ra != 1 || rb != 1) snprintf(what, sizeof(what), "valid call rejected");
    else if (memcmp(out, BIG[1], len)) snprintf(what, sizeof(what), "%s result differs from the call on aligned separate buffers", inplace ? "in-place" : "placed");
    else if (!inplace && memcmp(in, BIG[0], len)) snprintf(what, sizeof(what), "input buffer modified");
    else if (tw && memcmp(tw, BIG[2], len)) snprintf(what, sizeof(what), "tweak array modified");
    else canaries_ok(4, what, sizeof(what));
    if (what[0]) {
        char d[400], k2[300];
        snprintf(d, sizeof(d), "{\"object\":\"%s_parallel\",\"backend\":\"%s\",\"blocks\":%u,\"decrypt\":%d,\"in_place\":%d,\"placement_in\":%d,\"placement_out\":%d,\"placement_tweak\":%d,\"problem\":\"%s\"}",
                 c->name, vh_backend_names[be], nb, dec, inplace, pc_in, pc_out, pc_tw, what);
        snprintf(k2, sizeof(k2), "C09:%s_parallel:%s:%s", c->name, vh_backend_names[be], strstr(what, "canary") ? "wrote-outside-buffer" : (inplace ? "in-place-changes-result" : "placement-changes-result"));
        viol(k2, idx, d);
    }
    c->par_cleanup(&A); c->par_cleanup(&Bh);
}

/* ---- buffers whose addresses differ by an exact multiple of 4 GiB (same low 32 address bits, not overlapping) ---- */
static uint8_t *far_map(uint8_t *want, size_t span)
{
#ifndef MAP_FIXED_NOREPLACE
#define MAP_FIXED_NOREPLACE 0x100000
#endif
    uint8_t *p = mmap(want, span, PROT_READ | PROT_WRITE, MAP_PRIVATE | MAP_ANONYMOUS | (want ? MAP_FIXED_NOREPLACE : 0), -1, 0);
    if (p == MAP_FAILED) return NULL;
    if (want && p != want) { munmap(p, span); return NULL; }
    return p;
}
static void case_far(uint64_t idx, vh_rng *r)
{
    const vh_cipher *c = &vh_ciphers[idx % CIPH_N];
    int be = (int)((idx / CIPH_N) % (uint64_t)(maxbe[c->id] + 1)), par = (int)((idx / 9) & 1), dec = 0, ra = 1, rb = 1, k;
    unsigned batch = c->bb * 8, len = vh_below(r, 4) ? vh_below(r, 3 * batch + 18) : 2000 + vh_below(r, 6000), mis = vh_below(r, 64), pre = vh_below(r, 2) ? vh_below(r, 70) : 0;
    size_t span = 16384; uint8_t *m[3] = {0, 0, 0}, *in, *out, *tw = NULL, key[48], ctr[16], junk[80];
    static uint8_t src[2][8200], ref[8200], stale[8200];
    long long mult = (long long)(1 + vh_below(r, 3)) * (vh_below(r, 2) ? 1 : -1);
    vh_handle A, Bh; char what[200], key_[200];
    if (par) { len = len / c->bb * c->bb; pre = 0; dec = c->par_decrypt && vh_below(r, 2); }
    vh_rand_bytes(r, key, 48); vh_rand_bytes(r, ctr, 16); vh_rand_bytes(r, src[0], len); vh_rand_bytes(r, src[1], len); vh_rand_bytes(r, stale, len); vh_rand_bytes(r, junk, sizeof(junk));
    m[0] = far_map(NULL, span);
    if (m[0]) m[1] = far_map(m[0] + mult * 0x100000000LL, span);
    if (m[0] && !m[1]) { mult = -mult; m[1] = far_map(m[0] + mult * 0x100000000LL, span); }
    if (m[1] && par && c->id == CIPH_MANTIS) { m[2] = far_map(m[1] + mult * 0x100000000LL, span); if (!m[2]) m[2] = far_map(NULL, span); }     /* the tweak array always gets a mapping of its own */
    if (!m[0] || !m[1]) { VH_COUNT("far_placement_unavailable", 1); if (m[0]) munmap(m[0], span); return; }
    in = m[0] + mis; out = m[1] + mis;            /* out - in == mult * 2^32 exactly ... */
    if (vh_below(r, 2)) {                         /* ... or a little more or less: (out - in) mod 2^32 is then a small number although the buffers are far apart */
        unsigned d = 1 + vh_below(r, (unsigned)(span - 64 - len - mis));
        if (vh_below(r, 2)) out += d; else in += d;
    }
    memcpy(in, src[0], len); memcpy(out, stale, len);
    if (par && c->id == CIPH_MANTIS) { if (!m[2]) { VH_COUNT("far_placement_unavailable", 1); munmap(m[0], span); munmap(m[1], span); return; } tw = m[2] + mis; memcpy(tw, src[1], len); }
    memset(&A, 0, sizeof(A)); memset(&Bh, 0, sizeof(Bh));
    vh_set_cap(be);
    snprintf(key_, sizeof(key_), "C09:%s_%s:%s:buffers-4GiB-apart", c->name, par ? "parallel" : "ctr", vh_backend_names[be]); vh_set_crash_key(key_);
    if (par) {
        c->par_init(&A); c->par_init(&Bh); c->par_set_key(&A, key, 16, 6, MANTIS_ENCRYPT); c->par_set_key(&Bh, key, 16, 6, MANTIS_ENCRYPT);
        vh_call_begin("parallel call, buffers 4 GiB apart"); ra = (dec ? c->par_decrypt : c->par_encrypt)(out, in, tw, len, &A); vh_call_end();
        rb = (dec ? c->par_decrypt : c->par_encrypt)(ref, src[0], src[1], len, &Bh);
        c->par_cleanup(&A); c->par_cleanup(&Bh);
    } else {
        c->ctr_init(&A); c->ctr_init(&Bh); c->ctr_set_key(&A, key, 16, 7); c->ctr_set_key(&Bh, key, 16, 7);
        c->ctr_set_counter(&A, ctr, c->bb); c->ctr_set_counter(&Bh, ctr, c->bb);
        if (pre) { uint8_t t2[80]; c->ctr_encrypt(t2, junk, pre, &A); c->ctr_encrypt(t2, junk, pre, &Bh); }
        vh_call_begin("ctr call, buffers 4 GiB apart"); ra = c->ctr_encrypt(out, in, len, &A); vh_call_end();
        rb = c->ctr_encrypt(ref, src[0], len, &Bh);
        c->ctr_cleanup(&A); c->ctr_cleanup(&Bh);
    }
    VH_COUNT("calls_with_buffers_a_multiple_of_4GiB_apart", 1);
    { int cfg[6] = {c->id + 500, be, par, (int)len, (int)mis, (int)mult}; if (vh_distinct(vh_hash(cfg, sizeof(cfg), VH_HASH_INIT))) VH_COUNT("distinct_placement_configurations", 1); }
    what[0] = 0;
    if (ra != 1 || rb != 1) snprintf(what, sizeof(what), "valid call rejected");
    else if (memcmp(out, ref, len)) { unsigned q = 0; while (q < len && out[q] == ref[q]) ++q; snprintf(what, sizeof(what), "result differs from the call on ordinary buffers at byte %u", q); }
    else if (memcmp(in, src[0], len)) snprintf(what, sizeof(what), "input buffer modified");
    else if (tw && memcmp(tw, src[1], len)) snprintf(what, sizeof(what), "tweak array modified");
    if (what[0]) {
        char d[400], k2[300];
        snprintf(d, sizeof(d), "{\"object\":\"%s_%s\",\"backend\":\"%s\",\"bytes\":%u,\"out_minus_in\":\"%lld * 2^32\",\"offset_in_page\":%u,\"bytes_consumed_before\":%u,\"problem\":\"%s\"}",
                 c->name, par ? "parallel" : "ctr", vh_backend_names[be], len, mult, mis, pre, what);
        snprintf(k2, sizeof(k2), "C09:%s_%s:%s:placement-changes-result", c->name, par ? "parallel" : "ctr", vh_backend_names[be]);
        viol(k2, idx, d);
    }
    for (k = 0; k < 3; ++k) if (m[k]) munmap(m[k], span);
}

static void one_case(uint64_t idx)
{
    vh_rng r; char d[256];
    vh_rng_seed(&r, vh_seed, 0x09, idx);
    snprintf(d, sizeof(d), "{\"driver\":\"drv_buf\",\"prop\":\"C09\",\"mode\":\"c09\",\"seed\":%llu,\"case\":%llu,\"variant\":\"%s\"}", (unsigned long long)vh_seed, (unsigned long long)idx, vh_variant);
    vh_case_begin(idx, "C09", d);
    if (idx % 1000 == 999) { case_big(idx / 1000, &r); return; }
#ifndef VH_VALGRIND      /* placements at chosen addresses are a matter for the native and ASan builds; under memcheck the address space is valgrind's */
    if (idx % 100 == 57) { case_far(idx / 100, &r); return; }
#endif
    switch (idx & 3) {
    case 0: case_single(idx >> 2, &r); break;
    case 1: case_keys(idx >> 2, &r); break;
    case 2: case_ctr(idx >> 2, &r); break;
    default: case_par(idx >> 2, &r); break;
    }
}

int main(int argc, char **argv)
{
    int i;
    vh_init(argc, argv);
    maxmis = atoi(vh_getarg("maxmis", "64"));
    vh_guard_init();
    vh_install_fault_handler();
    for (i = 0; i < CIPH_N; ++i) { maxbe[i] = vh_max_backend(&vh_ciphers[i]); if (maxbe[i] < 0) { printf("{\"type\":\"inconclusive\",\"reason\":\"cannot identify back end\"}\n"); return 2; } }
    vh_run(one_case);
    vh_finish();
    return 0;
}
